#!/usr/bin/env python3
"""Regenerates /verif/MANIFEST.json from tools/claims.json (the per-property claim texts) and the repo's hook commits."""
import json, subprocess
V='/verif'
claims=json.load(open(V+'/tools/claims.json'))
props=[json.loads(l) for l in open(V+'/properties.jsonl')]
TECH="contract-based deductive verification: VC generation over go/ssa of the real code, contracts in //@ comments (build tag verif), obligations discharged by z3 4.8.12 / z3 5.1.0 / cvc5 1.0"
hooks=subprocess.run("git -C /repo log --format=%h --grep='^verif:'",shell=True,capture_output=True,text=True).stdout.split()
m={"version":1,
 "setup_cmd":"cd /verif/engine && GOFLAGS=-mod=mod GOPROXY=off GOSUMDB=off GOTOOLCHAIN=local go build -o /verif/bin/govc ./cmd/govc",
 "hooks":{"guard":"verif","enable":"contracts are comment-only files pkg/*/zz_contracts_verif*.go behind //go:build verif; govc loads /repo with -tags verif; one test file (pkg/document/template_image_placeholder_order_test.go: regression tests of three fixes, added by commit f0015af) is behind the same tag, so the pinned suite is unchanged with the tag off","baseline_off_cmd":"cd /repo && go test -vet=off -count=1 ./pkg/... ./test/...","source_commits":list(reversed(hooks)),"add_only":True},
 "engines":[{"name":"govc","path":"/verif/engine","serves_properties":sorted(claims['claimed']),"kind_free_text":"VC generator over go/ssa (x/tools v0.29.0), SMT-LIB obligations discharged by z3/z3-new/cvc5"}],
 "checks":[],"notes":claims.get('notes',''),"not_applicable":[]}
for pid in sorted(claims['claimed']):
    c=claims['claimed'][pid]
    m['checks'].append({"property_id":pid,"quick_cmd":f"bin/govc check -p {pid} -tier quick","thorough_cmd":f"bin/govc check -p {pid} -tier thorough",
      "evidence_file":f"/verif/evidence/{pid}.json","replay_cmd_template":"bin/govc replay {path}","engine":"govc",
      "level_claimed":{"category":c.get('category','proof'),"text":c['text'],"design_ref":c.get('design','DESIGN.md §6 '+pid)},
      "level_note":c['note'],"technique":c.get('technique',TECH)})
for p in props:
    if p['id'] not in claims['claimed']:
        m['not_applicable'].append({"property_id":p['id'],"reason":claims['not_applicable'].get(p['id'],"not yet claimed: contracts under construction (see DESIGN.md)")})
json.dump(m,open(V+'/MANIFEST.json','w'),indent=1,ensure_ascii=False)
print("claimed:",sorted(claims['claimed']))
