#!/usr/bin/env python3
"""Generates the contracts of the six public header/footer calls (AddHeader, AddFooter, AddHeaderWithPageNumber,
AddFooterWithPageNumber, AddFormattedHeader, AddFormattedFooter) from one template, so that the header and the
footer variants cannot drift apart. Output: the text between the GENERATED markers of
pkg/document/zz_contracts_verif_hf.go (usage: gen_hf_contracts.py <repo> rewrites the file in place)."""
import sys, re

HDR = dict(o='ftr', h='hdr', H='Header', O='Footer', T='HeaderFooterReference', prefix='header', kind='headerType',
           rel='http://schemas.openxmlformats.org/officeDocument/2006/relationships/header',
           ct='application/vnd.openxmlformats-officedocument.wordprocessingml.header+xml', word='header')
FTR = dict(o='hdr', h='ftr', H='Footer', O='Header', T='FooterReference', prefix='footer', kind='footerType',
           rel='http://schemas.openxmlformats.org/officeDocument/2006/relationships/footer',
           ct='application/vnd.openxmlformats-officedocument.wordprocessingml.footer+xml', word='footer')

FUNCS = [('AddHeader', HDR, 'plain'), ('AddFooter', FTR, 'plain'), ('AddHeaderWithPageNumber', HDR, 'pagenum'),
         ('AddFooterWithPageNumber', FTR, 'pagenum'), ('AddFormattedHeader', HDR, 'formatted'), ('AddFormattedFooter', FTR, 'formatted')]

# What is serialised into the part: exactly one value is handed to xml.MarshalIndent, a fresh %(H)s whose single paragraph
# carries the call's text (and page-number field / formatting); the part's content ends with the bytes returned for it.
CONTENT_COMMON = r'''// what is serialised: one fresh %(H)s with a single paragraph; the part ends with the bytes the serialiser returned for it
//@ ensures err == nil ==> marshalCount() == old(marshalCount()) + 1 && typeIs(marshalAt(old(marshalCount())), "*%(H)s") && fresh(%(mv)s) && len(%(mv)s.Paragraphs) == 1 && fresh(%(mv)s.Paragraphs[0])
//@ ensures err == nil ==> len(d.parts[%(part)s]) >= len(marshalOut(old(marshalCount()))) && (forall i int :: 0 <= i && i < len(marshalOut(old(marshalCount()))) ==> d.parts[%(part)s][len(d.parts[%(part)s]) - len(marshalOut(old(marshalCount()))) + i] == marshalOut(old(marshalCount()))[i])
//@ ensures err != nil ==> marshalCount() == old(marshalCount())
'''
def pagenum_clauses():
    out = ['// runs: [text]? then, when a page number is requested, " 第 ", the PAGE field (begin, instruction, separate, placeholder, end), " 页"\n',
           '//@ ensures err == nil ==> %(mp)s.Properties == nil && len(%(mp)s.Runs) == ite(text != "", 1, 0) + ite(showPageNum, 7, 0)\n',
           '//@ ensures err == nil && text != "" ==> %(mp)s.Runs[0].Text.Content == text && %(mp)s.Runs[0].Text.Space == "preserve" && %(mp)s.Runs[0].FieldChar == nil && %(mp)s.Runs[0].InstrText == nil\n']
    for cond, base in (('text != ""', 1), ('text == ""', 0)):
        g = '//@ ensures err == nil && showPageNum && ' + cond + ' ==> '
        r = lambda k: '%(mp)s.Runs[' + str(base + k) + ']'
        out.append(g + r(0) + '.Text.Content == " 第 " && ' + r(0) + '.FieldChar == nil && ' + r(0) + '.InstrText == nil\n')
        out.append(g + r(1) + '.FieldChar != nil && ' + r(1) + '.FieldChar.FieldCharType == "begin" && ' + r(1) + '.InstrText == nil\n')
        out.append(g + r(2) + '.InstrText != nil && ' + r(2) + '.InstrText.Content == " PAGE  \\\\* MERGEFORMAT " && ' + r(2) + '.FieldChar == nil\n')
        out.append(g + r(3) + '.FieldChar != nil && ' + r(3) + '.FieldChar.FieldCharType == "separate" && ' + r(3) + '.InstrText == nil\n')
        out.append(g + r(4) + '.Text.Content == "1" && ' + r(4) + '.FieldChar == nil && ' + r(4) + '.InstrText == nil\n')
        out.append(g + r(5) + '.FieldChar != nil && ' + r(5) + '.FieldChar.FieldCharType == "end" && ' + r(5) + '.InstrText == nil\n')
        out.append(g + r(6) + '.Text.Content == " 页" && ' + r(6) + '.FieldChar == nil && ' + r(6) + '.InstrText == nil\n')
    return ''.join(out)

PAGENUM = pagenum_clauses()
CONTENT = {
 'plain': r'''//@ ensures err == nil ==> %(mp)s.Properties == nil && (text == "" ==> len(%(mp)s.Runs) == 0) && (text != "" ==> len(%(mp)s.Runs) == 1 && %(mp)s.Runs[0].Text.Content == text && %(mp)s.Runs[0].Text.Space == "preserve" && %(mp)s.Runs[0].Properties == nil && %(mp)s.Runs[0].FieldChar == nil && %(mp)s.Runs[0].InstrText == nil)
''',
 'pagenum': PAGENUM,
 'formatted': r'''// the paragraph is the one createFormattedParagraph builds from the configuration (text, alignment, run formatting; see its contract)
//@ ensures err == nil && config != nil ==> (config.Alignment == "" ==> %(mp)s.Properties == nil) && (config.Alignment != "" ==> %(mp)s.Properties != nil && %(mp)s.Properties.Justification != nil && %(mp)s.Properties.Justification.Val == string(config.Alignment))
//@ ensures err == nil && config != nil ==> (config.Text == "" ==> len(%(mp)s.Runs) == 0) && (config.Text != "" ==> len(%(mp)s.Runs) == 1 && %(mp)s.Runs[0].Text.Content == config.Text && %(mp)s.Runs[0].Text.Space == "preserve" && (config.Format == nil ==> %(mp)s.Runs[0].Properties == nil))
//@ ensures err == nil && config != nil && config.Text != "" && config.Format != nil ==> %(mp)s.Runs[0].Properties != nil && (%(mp)s.Runs[0].Properties.Bold != nil) == config.Format.Bold && (%(mp)s.Runs[0].Properties.Italic != nil) == config.Format.Italic && (%(mp)s.Runs[0].Properties.Underline != nil) == config.Format.Underline && (%(mp)s.Runs[0].Properties.Strike != nil) == config.Format.Strike
//@ ensures err == nil && config != nil && config.Text != "" && config.Format != nil ==> (config.Format.FontSize > 0 ==> %(mp)s.Runs[0].Properties.FontSize != nil && %(mp)s.Runs[0].Properties.FontSize.Val == itoa(config.Format.FontSize * 2)) && (config.Format.FontColor != "" ==> %(mp)s.Runs[0].Properties.Color != nil && %(mp)s.Runs[0].Properties.Color.Val == strings.TrimPrefix(config.Format.FontColor, "#")) && (fmtFont(config.Format) != "" ==> %(mp)s.Runs[0].Properties.FontFamily != nil && %(mp)s.Runs[0].Properties.FontFamily.ASCII == fmtFont(config.Format)) && (config.Format.Highlight != "" ==> %(mp)s.Runs[0].Properties.Highlight != nil && %(mp)s.Runs[0].Properties.Highlight.Val == config.Format.Highlight)
//@ ensures err == nil && config == nil ==> %(mp)s.Properties == nil && len(%(mp)s.Runs) == 0
''',
}

TEMPLATE = r'''
//@ func (*Document).%(fn)s
//@ props C11, C02
//@ requires docParts(d) && elemsOK(d.Body.Elements)
// failure (a kind that is not one of the three, or the serialiser reports an error): nothing has changed
//@ ensures !validKind(%(kind)s) ==> err != nil
//@ ensures err != nil ==> unchangedHeap()
//@ ensures err == nil ==> d.Body == old(d.Body) && d.parts == old(d.parts) && d.contentTypes == old(d.contentTypes) && d.documentRelationships == old(d.documentRelationships)
// the part of the kind is (re)written, every other part stays
//@ ensures err == nil ==> has(d.parts, %(part)s)
//@ ensures err == nil ==> forall k string :: k != %(part)s ==> has(d.parts, k) == old(has(d.parts, k)) && d.parts[k] == old(d.parts[k])
// relationship of the part: found (list unchanged) or exactly one appended (fresh id, never "rId1"); earlier ones stay
//@ ensures err == nil && !old(relNone(%(rels)s, %(relq)s, %(file)s)) ==> len(%(rels)s) == old(len(%(rels)s))
//@ ensures err == nil && old(relNone(%(rels)s, %(relq)s, %(file)s)) ==> len(%(rels)s) == old(len(%(rels)s)) + 1 && %(rels)s[old(len(%(rels)s))].Type == %(relq)s && %(rels)s[old(len(%(rels)s))].Target == %(file)s && %(rels)s[old(len(%(rels)s))].ID != "rId1"
//@ ensures err == nil && old(relNone(%(rels)s, %(relq)s, %(file)s)) ==> forall j int :: 0 <= j && j < old(len(%(rels)s)) ==> %(rels)s[j].ID != %(rels)s[old(len(%(rels)s))].ID
//@ ensures err == nil ==> forall j int :: 0 <= j && j < old(len(%(rels)s)) ==> %(rels)s[j] == old(%(rels)s[j])
//@ ensures err == nil && old(relIDsUnique(%(rels)s)) ==> relIDsUnique(%(rels)s)
// content type of the part registered once; earlier overrides stay
//@ ensures err == nil ==> ctHas(%(ovr)s, "/" + (%(part)s))
//@ ensures err == nil && old(ctHas(%(ovr)s, "/" + (%(part)s))) ==> len(%(ovr)s) == old(len(%(ovr)s))
//@ ensures err == nil && !old(ctHas(%(ovr)s, "/" + (%(part)s))) ==> len(%(ovr)s) == old(len(%(ovr)s)) + 1 && %(ovr)s[old(len(%(ovr)s))].PartName == "/" + (%(part)s) && %(ovr)s[old(len(%(ovr)s))].ContentType == "%(ct)s"
//@ ensures err == nil ==> forall j int :: 0 <= j && j < old(len(%(ovr)s)) ==> %(ovr)s[j] == old(%(ovr)s[j])
// section settings found or created: never a second element, every other body element stays in place
//@ ensures elemsOK(d.Body.Elements)
//@ ensures err == nil && !old(noSect(d.Body.Elements)) ==> len(d.Body.Elements) == old(len(d.Body.Elements))
//@ ensures err == nil && old(noSect(d.Body.Elements)) ==> len(d.Body.Elements) == old(len(d.Body.Elements)) + 1 && isSect(d.Body.Elements[old(len(d.Body.Elements))]) && fresh(%(ns)s)
//@ ensures err == nil ==> forall j int :: 0 <= j && j < old(len(d.Body.Elements)) ==> d.Body.Elements[j] == old(d.Body.Elements[j])
// exactly one reference of the kind, and its id resolves to a relationship of the right type whose target is the kind's part:
// (a) fresh section settings
//@ ensures err == nil && old(noSect(d.Body.Elements)) ==> len(%(ns)s.%(H)sReferences) == 1 && len(%(ns)s.%(O)sReferences) == 0 && %(ns)s.TitlePage == nil && %(h)sOneAt(%(ns)s.%(H)sReferences, 0, string(%(kind)s), %(ns)s.%(H)sReferences[0].ID) && relResolves(%(rels)s, %(ns)s.%(H)sReferences[0].ID, %(relq)s, %(file)s)
// (b) existing section settings without a reference of the kind: one fresh reference appended, the earlier entries stay
//@ ensures err == nil ==> forall s *SectionProperties :: {s.%(H)sReferences} allocated(s) && old(isFirstSect(d.Body.Elements, s)) && old(%(h)sNone(s.%(H)sReferences, string(%(kind)s))) ==> len(s.%(H)sReferences) == old(len(s.%(H)sReferences)) + 1 && fresh(s.%(H)sReferences[old(len(s.%(H)sReferences))]) && (forall q int :: 0 <= q && q < old(len(s.%(H)sReferences)) ==> s.%(H)sReferences[q] == old(s.%(H)sReferences[q])) && %(h)sOneAt(s.%(H)sReferences, old(len(s.%(H)sReferences)), string(%(kind)s), s.%(H)sReferences[old(len(s.%(H)sReferences))].ID) && relResolves(%(rels)s, s.%(H)sReferences[old(len(s.%(H)sReferences))].ID, %(relq)s, %(file)s)
// (c) existing reference of the kind (the first one, at k): same list of the same objects, that reference now resolves to the
//     part's relationship, no other reference changed its id; if the kind was referenced at most once it still is, exactly once
//@ ensures err == nil ==> forall s *SectionProperties, k int :: {s.%(H)sReferences[k]} allocated(s) && old(isFirstSect(d.Body.Elements, s)) && old(%(h)sFirstAt(s.%(H)sReferences, k, string(%(kind)s))) ==> s.%(H)sReferences[k] == old(s.%(H)sReferences[k]) && len(s.%(H)sReferences) == old(len(s.%(H)sReferences)) && (forall q int :: 0 <= q && q < len(s.%(H)sReferences) ==> s.%(H)sReferences[q] == old(s.%(H)sReferences[q]))
//@ ensures err == nil ==> forall s *SectionProperties, k int :: {s.%(H)sReferences[k]} allocated(s) && old(isFirstSect(d.Body.Elements, s)) && old(%(h)sFirstAt(s.%(H)sReferences, k, string(%(kind)s))) ==> s.%(H)sReferences[k] == old(s.%(H)sReferences[k]) && relResolves(%(rels)s, s.%(H)sReferences[k].ID, %(relq)s, %(file)s)
//@ ensures err == nil ==> forall s *SectionProperties, k int :: {s.%(H)sReferences[k]} allocated(s) && old(isFirstSect(d.Body.Elements, s)) && old(%(h)sFirstAt(s.%(H)sReferences, k, string(%(kind)s))) ==> s.%(H)sReferences[k] == old(s.%(H)sReferences[k]) && (forall r *%(T)s :: allocated(r) && r != old(s.%(H)sReferences[k]) ==> r.ID == old(r.ID))
//@ ensures err == nil ==> forall s *SectionProperties, k int :: {s.%(H)sReferences[k]} allocated(s) && old(isFirstSect(d.Body.Elements, s)) && old(%(h)sFirstAt(s.%(H)sReferences, k, string(%(kind)s))) && old(%(h)sAtMostOne(s.%(H)sReferences, string(%(kind)s))) ==> %(h)sOneAt(s.%(H)sReferences, k, string(%(kind)s), s.%(H)sReferences[k].ID)
//@ ensures err == nil && (old(noSect(d.Body.Elements)) || (forall s *SectionProperties :: allocated(s) && old(isFirstSect(d.Body.Elements, s)) ==> old(%(h)sNone(s.%(H)sReferences, string(%(kind)s))))) ==> forall r *%(T)s :: allocated(r) ==> r.ID == old(r.ID)
// the other kinds, the %(oword)s references and every other section-properties object are untouched
//@ ensures err == nil ==> forall s *SectionProperties :: {s.%(H)sReferences} allocated(s) && old(isFirstSect(d.Body.Elements, s)) && string(%(kind)s) != "default" && old(%(h)sAtMostOne(s.%(H)sReferences, "default")) ==> %(h)sAtMostOne(s.%(H)sReferences, "default")
//@ ensures err == nil ==> forall s *SectionProperties :: {s.%(H)sReferences} allocated(s) && old(isFirstSect(d.Body.Elements, s)) && string(%(kind)s) != "first" && old(%(h)sAtMostOne(s.%(H)sReferences, "first")) ==> %(h)sAtMostOne(s.%(H)sReferences, "first")
//@ ensures err == nil ==> forall s *SectionProperties :: {s.%(H)sReferences} allocated(s) && old(isFirstSect(d.Body.Elements, s)) && string(%(kind)s) != "even" && old(%(h)sAtMostOne(s.%(H)sReferences, "even")) ==> %(h)sAtMostOne(s.%(H)sReferences, "even")
//@ ensures forall s *SectionProperties :: {s.%(H)sReferences} allocated(s) && !old(isFirstSect(d.Body.Elements, s)) ==> s.%(H)sReferences == old(s.%(H)sReferences)
//@ ensures forall s *SectionProperties :: {s.XmlnsR} allocated(s) && !old(isFirstSect(d.Body.Elements, s)) ==> s.XmlnsR == old(s.XmlnsR)
//@ ensures forall s *SectionProperties :: {s.XmlnsR} allocated(s) && old(s.XmlnsR) != "" ==> s.XmlnsR == old(s.XmlnsR)
// canonical references (the invariant behind "each kind has exactly one, current definition"): every reference of a valid kind
// resolves, in the document relationship list, to a relationship of the right type whose target is the part of THAT kind
//@ ensures err == nil && old(noSect(d.Body.Elements)) ==> hdrCanon(%(ns)s.HeaderReferences, %(rels)s) && ftrCanon(%(ns)s.FooterReferences, %(rels)s)
//@ ensures err == nil ==> forall s *SectionProperties :: {s.%(H)sReferences} allocated(s) && old(isFirstSect(d.Body.Elements, s)) && old(%(h)sNone(s.%(H)sReferences, string(%(kind)s))) && old(%(h)sCanon(s.%(H)sReferences, %(rels)s)) ==> %(h)sCanon(s.%(H)sReferences, %(rels)s)
//@ ensures err == nil ==> forall s *SectionProperties, k int :: {s.%(H)sReferences[k]} allocated(s) && old(isFirstSect(d.Body.Elements, s)) && old(%(h)sFirstAt(s.%(H)sReferences, k, string(%(kind)s))) && old(%(h)sCanon(s.%(H)sReferences, %(rels)s)) ==> s.%(H)sReferences[k] == old(s.%(H)sReferences[k])
//@ ensures err == nil ==> forall s *SectionProperties, k int :: {s.%(H)sReferences[k]} allocated(s) && old(isFirstSect(d.Body.Elements, s)) && old(%(h)sFirstAt(s.%(H)sReferences, k, string(%(kind)s))) && old(%(h)sCanon(s.%(H)sReferences, %(rels)s)) ==> %(h)sCanon(s.%(H)sReferences, %(rels)s)
//@ ensures err == nil ==> forall s *SectionProperties :: {s.%(O)sReferences} allocated(s) && old(isFirstSect(d.Body.Elements, s)) && old(%(o)sCanon(s.%(O)sReferences, %(rels)s)) ==> %(o)sCanon(s.%(O)sReferences, %(rels)s)
//@ ensures unchangedExcept("map:string:[]byte", "Relationships.Relationships", "Relationship.*", "ContentTypes.Overrides", "Override.*", "Body.Elements", "cell:any", "SectionProperties.XmlnsR", "SectionProperties.%(H)sReferences", "%(T)s.ID", "cell:*%(T)s")
// (C02, package-wide invariant docRelsResolve - zz_contracts_verif_pkg.go) every internal relationship of the list still names a part that is
// present: the (found or new) relationship's target is the part just stored, relative to word/; earlier entries and parts stay
//@ ensures err == nil && old(docRelsResolve(d)) ==> docRelsResolve(d)
'''

def gen():
    out = []
    for fn, p, variant in FUNCS:
        q = dict(p)
        q['fn'] = fn
        q['file'] = 'hfFile("%s", %s)' % (p['prefix'], p['kind'])
        q['part'] = '"word/" + hfFile("%s", %s)' % (p['prefix'], p['kind'])
        q['rels'] = 'd.documentRelationships.Relationships'
        q['ovr'] = 'd.contentTypes.Overrides'
        q['relq'] = '"%s"' % p['rel']
        q['ns'] = 'd.Body.Elements[old(len(d.Body.Elements))].(*SectionProperties)'
        q['oword'] = 'footer' if p['word'] == 'header' else 'header'
        q['mv'] = 'marshalAt(old(marshalCount())).(*%s)' % p['H']
        q['mp'] = q['mv'] + '.Paragraphs[0]'
        q['r'] = q['mp'] + '.Runs[ite(text != "", 1, 0) + '
        t = TEMPLATE % q
        marker = '// section settings found or created'
        i = t.index(marker)
        t = t[:i] + (CONTENT_COMMON % q) + (CONTENT[variant] % q) + t[i:]
        out.append(t)
    return ''.join(out)

BEGIN = '// ---- GENERATED by /verif/tools/gen_hf_contracts.py: the six public calls (do not edit by hand) ----\n'
END = '// ---- END GENERATED ----\n'

if __name__ == '__main__':
    path = sys.argv[1] + '/pkg/document/zz_contracts_verif_hf.go'
    s = open(path).read()
    body = BEGIN + gen() + '\n' + END
    if BEGIN in s:
        i = s.index(BEGIN); j = s.index(END) + len(END)
        s = s[:i] + body + s[j:]
    else:
        s = s.rstrip('\n') + '\n\n' + body
    open(path, 'w').write(s)
