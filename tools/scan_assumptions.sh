#!/bin/bash
# Mechanical scan for everything in the contract files that is assumed rather than proved:
# trusted contracts, axioms, assume-no-panic (frames/posts hold for non-panicking executions only), partial (termination
# of a self-recursive function not shown), emits (assumed event contribution), deepcopy-shares (recorded weakening).
# `inline` and `ignore-ensures` are listed for information (no assumption: the body is analysed at the call site /
# fewer callee facts are used).
REPO=${1:-/repo}
grep -n "^//@ trusted\|^//@ axiom\|^//@ assume-no-panic\|^//@ partial\|^//@ emits\|^//@ deepcopy-shares" $REPO/pkg/*/zz_contracts_verif*.go | sed "s|$REPO/||"
echo "--- informational"
grep -c "^//@ inline\|^//@ ignore-ensures" $REPO/pkg/*/zz_contracts_verif*.go | grep -v ":0" | sed "s|$REPO/||"
