#!/usr/bin/env python3
# generates pkg/document/zz_contracts_verif_tablector.go: python3 tools/gen_tablector_contracts.py > $REPO/pkg/document/zz_contracts_verif_tablector.go
# (CreateTable and AddNestedTable share one four-loop structure; AddTable reuses the postconditions)
import sys
HDR = '''//go:build verif

// Contracts for the table constructors, read by /verif/engine (govc).
// C09: every table the API builds satisfies the ownership invariants the 37 table editors require
// (rowsOwn, cellPropsOwn, rowPropsOwn, cellParasOwn, paraRunsOwn) and is a rectangular rows x cols grid.
// C08: AddTable appends exactly the new table to the body.
// Comments only: with or without the build tag this file adds no code to the package.
package document

// cfgText: the initial text of cell (r, c): the data entry when there is one, empty otherwise
// (short data rows are padded with empty cells, surplus data rows/entries are ignored).
//@ spec cfgText(cfg *TableConfig, r int, c int) string = ite(r < len(cfg.Data) && c < len(cfg.Data[r]), cfg.Data[r][c], "")
// cfgWidth: the documented width rule: the given column widths, or the table width divided evenly.
//@ spec cfgWidth(cfg *TableConfig, c int) int = ite(len(cfg.ColWidths) == 0, cfg.Width / cfg.Cols, cfg.ColWidths[c])
// cfgValid: the configurations the constructors accept.
//@ spec cfgValid(cfg *TableConfig) bool = cfg != nil && cfg.Rows > 0 && cfg.Cols > 0 && (len(cfg.ColWidths) == 0 || len(cfg.ColWidths) == cfg.Cols)
// cellShape: one cell as the constructors build it: own width, no merge markers, no nested table, one paragraph with one run.
//@ spec cellShape(c *TableCell, w string, txt string) bool = c.Properties != nil && c.Properties.TableCellW != nil && c.Properties.TableCellW.W == w && c.Properties.TableCellW.Type == "dxa" && c.Properties.GridSpan == nil && c.Properties.VMerge == nil && len(c.Tables) == 0 && len(c.Paragraphs) == 1 && len(c.Paragraphs[0].Runs) == 1 && c.Paragraphs[0].Runs[0].Text.Content == txt
// cellLive: the memory a cell points to is allocated (needed to tell it from what later iterations allocate).
//@ spec cellLive(c *TableCell) bool = live(c.Properties) && live(c.Properties.TableCellW) && arr(c.Paragraphs) < allocBound() && arr(c.Paragraphs[0].Runs) < allocBound()
// cellsApart: two cells share neither their properties object nor a paragraph or run array.
//@ spec cellsApartP(a *TableCell, b *TableCell) bool = a.Properties != b.Properties
//@ spec cellsApartA(a *TableCell, b *TableCell) bool = arr(a.Paragraphs) != arr(b.Paragraphs)
//@ spec cellsApartR(a *TableCell, b *TableCell) bool = arr(a.Paragraphs[0].Runs) != arr(b.Paragraphs[0].Runs)
// cellBelow / cellAbove: the memory of a cell was allocated before / after the allocation counter stood at b.
//@ spec cellBelow(c *TableCell, b int) bool = !above(c.Properties, b) && arr(c.Paragraphs) < b && arr(c.Paragraphs[0].Runs) < b
//@ spec cellAbove(c *TableCell, b int) bool = above(c.Properties, b) && arr(c.Paragraphs) >= b && arr(c.Paragraphs[0].Runs) >= b
'''

def built(res, guard):
    """postconditions describing the table `res` built from config (guard = success condition)"""
    g = guard
    R = f"0 <= r && r < config.Rows"
    RC = f"0 <= r && r < config.Rows && 0 <= c && c < config.Cols"
    T = "{%s.Rows[r].Cells[c]}" % res
    return [
        f"{g} ==> len({res}.Rows) == config.Rows && freshArr({res}.Rows)",
        f"{g} ==> {res}.Grid != nil && fresh({res}.Grid) && len({res}.Grid.Cols) == config.Cols && freshArr({res}.Grid.Cols)",
        f"{g} ==> forall c int :: 0 <= c && c < config.Cols ==> {res}.Grid.Cols[c].W == itoa(cfgWidth(config, c))",
        f"{g} ==> forall r int :: {R} ==> len({res}.Rows[r].Cells) == config.Cols && {res}.Rows[r].Properties == nil && freshArr({res}.Rows[r].Cells)",
        f"{g} ==> forall r int, c int :: {T} {RC} ==> cellShape(&{res}.Rows[r].Cells[c], itoa(cfgWidth(config, c)), cfgText(config, r, c))",
        f"{g} ==> forall r int, c int :: {T} {RC} ==> fresh({res}.Rows[r].Cells[c].Properties) && freshArr({res}.Rows[r].Cells[c].Paragraphs) && freshArr({res}.Rows[r].Cells[c].Paragraphs[0].Runs)",
        f"{g} ==> rowsOwn({res})",
        f"{g} ==> cellPropsOwn({res})",
        f"{g} ==> rowPropsOwn({res})",
        f"{g} ==> cellParasOwn({res})",
        f"{g} ==> paraRunsOwn({res})",
    ]

def loops(tab, row, extra3=(), extra4=(), extra12=()):
    """the four loops of the constructor body; tab/row are the local names"""
    out = []
    def L(n, invs, dec):
        out.append(f"//@ loop {n}")
        for i in invs:
            out.append("//@   invariant " + i)
        out.append("//@   decreases " + dec)
    widths = ["len(colWidths) == config.Cols",
              "forall k int :: 0 <= k && k < config.Cols ==> colWidths[k] == cfgWidth(config, k)"]
    L(1, ["0 <= #i && #i <= len(colWidths) && unchangedHeap()",
          "len(colWidths) == config.Cols && arr(colWidths) >= old(allocBound())",
          "avgWidth == config.Width / config.Cols",
          "forall k int :: 0 <= k && k < #i ==> colWidths[k] == avgWidth"] + list(extra12),
      "len(colWidths) - #i")
    L(2, ["0 <= #i && #i <= len(colWidths) && unchangedHeap()"] + widths + [
          f"fresh({tab}) && fresh({tab}.Grid) && len({tab}.Grid.Cols) == #i && freshArr({tab}.Grid.Cols) && arr({tab}.Grid.Cols) < allocBound()",
          f"forall k int :: 0 <= k && k < #i ==> {tab}.Grid.Cols[k].W == itoa(cfgWidth(config, k))"] + list(extra12),
      "len(colWidths) - #i")
    T = "{%s.Rows[0:config.Rows][r].Cells[c]}" % tab
    T3 = "{%s.Rows[0:config.Rows][r].Cells[c1], %s.Rows[0:config.Rows][r].Cells[c2]}" % (tab, tab)
    TO = "{%s.Rows[0:config.Rows][r1].Cells[c], %s.Rows[0:config.Rows][r2]}" % (tab, tab)
    inrow = "0 <= r && r < i && 0 <= c1 && c1 < config.Cols && 0 <= c2 && c2 < config.Cols && c1 != c2"
    # finished rows: allocation order instead of pairwise distinctness -- row arrays are allocated in row order, the
    # contents of a row after its own array and before the array of every later row; inside one row cells are apart
    fin = [
        f"len({tab}.Rows) == i && cap({tab}.Rows) == config.Rows && off({tab}.Rows) == 0 && arr({tab}.Rows) >= old(allocBound()) && arr({tab}.Rows) < allocBound()",
        f"forall r int :: 0 <= r && r < i ==> len({tab}.Rows[0:config.Rows][r].Cells) == config.Cols && {tab}.Rows[0:config.Rows][r].Properties == nil && arr({tab}.Rows[0:config.Rows][r].Cells) >= old(allocBound()) && arr({tab}.Rows[0:config.Rows][r].Cells) < allocBound()%s",
        f"forall r1 int, r2 int :: 0 <= r1 && r1 < r2 && r2 < i ==> arr({tab}.Rows[0:config.Rows][r1].Cells) < arr({tab}.Rows[0:config.Rows][r2].Cells)",
        f"forall r int, c int :: {T} 0 <= r && r < i && 0 <= c && c < config.Cols ==> cellShape(&{tab}.Rows[0:config.Rows][r].Cells[c], itoa(colWidths[c]), cfgText(config, r, c)) && cellLive(&{tab}.Rows[0:config.Rows][r].Cells[c])",
        f"forall r int, c int :: {T} 0 <= r && r < i && 0 <= c && c < config.Cols ==> cellAbove(&{tab}.Rows[0:config.Rows][r].Cells[c], arr({tab}.Rows[0:config.Rows][r].Cells))",
        f"forall r1 int, r2 int, c int :: {TO} 0 <= r1 && r1 < r2 && r2 < i && 0 <= c && c < config.Cols ==> cellBelow(&{tab}.Rows[0:config.Rows][r1].Cells[c], arr({tab}.Rows[0:config.Rows][r2].Cells))",
    ] + [f"forall r int, c1 int, c2 int :: {T3} {inrow} ==> cellsApart{k}(&{tab}.Rows[0:config.Rows][r].Cells[c1], &{tab}.Rows[0:config.Rows][r].Cells[c2])" for k in "PAR"]
    fin3 = [x.replace("%s", "") for x in fin]
    fin4 = [x.replace("%s", f" && arr({tab}.Rows[0:config.Rows][r].Cells) < arr({row}.Cells)") for x in fin]
    L(3, ["0 <= i && i <= config.Rows && unchangedHeap()"] + widths + fin3 + list(extra3), "config.Rows - i")
    TC = "{%s.Cells[0:config.Cols][c]}" % row
    TC2 = "{%s.Cells[0:config.Cols][c1], %s.Cells[0:config.Cols][c2]}" % (row, row)
    cur = [
        f"0 <= j && j <= config.Cols && {row}.Properties == nil && len({row}.Cells) == j && cap({row}.Cells) == config.Cols && off({row}.Cells) == 0 && arr({row}.Cells) >= old(allocBound()) && arr({row}.Cells) < allocBound()",
        f"forall c int :: {TC} 0 <= c && c < j ==> cellShape(&{row}.Cells[0:config.Cols][c], itoa(colWidths[c]), cfgText(config, i, c)) && cellLive(&{row}.Cells[0:config.Cols][c])",
        f"forall r int, c int :: {T} 0 <= r && r < i && 0 <= c && c < config.Cols ==> cellBelow(&{tab}.Rows[0:config.Rows][r].Cells[c], arr({row}.Cells))",
        f"forall c int :: {TC} 0 <= c && c < j ==> cellAbove(&{row}.Cells[0:config.Cols][c], arr({row}.Cells))",
    ] + [f"forall c1 int, c2 int :: {TC2} 0 <= c1 && c1 < j && 0 <= c2 && c2 < j && c1 != c2 ==> cellsApart{k}(&{row}.Cells[0:config.Cols][c1], &{row}.Cells[0:config.Cols][c2])" for k in "PAR"]
    L(4, ["0 <= i && i < config.Rows && unchangedHeap()"] + widths + fin4 + cur + list(extra4), "config.Cols - j")
    return out

def contract(fn, props, pre, post, lp, extra=()):
    out = [f"//@ func {fn}", f"//@ props {props}"] + list(extra)
    out += ["//@ requires " + p for p in pre]
    out += [("//@ " + p) if p.startswith("modifies") else ("//@ ensures " + p) for p in post]
    out += lp
    return "\n".join(out) + "\n"

parts = [HDR]
parts.append('''
// CreateTable: accepts exactly the valid configurations; the result is made of fresh memory only and nothing that
// existed before the call is written (a rejected configuration therefore changes nothing).
''' + contract("(*Document).CreateTable", "C09", ["d != nil"],
    ["modifies nothing", "err != nil ==> result0 == nil", "err == nil <==> cfgValid(config)", "err == nil ==> fresh(result0)"] + built("result0", "err == nil"),
    loops("table", "row")))
parts.append('''
// AddTable: CreateTable, then the table is appended as the last body element; every earlier element stays in its slot.
// A rejected configuration changes nothing.
''' + contract("(*Document).AddTable", "C08, C09", ["d != nil && d.Body != nil"],
    ["err == nil <==> cfgValid(config)", "err != nil ==> result0 == nil && unchangedHeap()", "err == nil ==> fresh(result0)",
     "err == nil ==> len(d.Body.Elements) == old(len(d.Body.Elements)) + 1",
     'err == nil ==> typeIs(d.Body.Elements[old(len(d.Body.Elements))], "*Table") && d.Body.Elements[old(len(d.Body.Elements))].(*Table) == result0',
     "err == nil ==> forall j int :: 0 <= j && j < old(len(d.Body.Elements)) ==> d.Body.Elements[j] == old(d.Body.Elements[j])",
     "err == nil && old(elemsOK(d.Body.Elements)) && (forall j int :: 0 <= j && j < old(len(d.Body.Elements)) ==> d.Body.Elements[j] == old(d.Body.Elements[j])) && len(d.Body.Elements) == old(len(d.Body.Elements)) + 1 && result0 != nil && d.Body.Elements[old(len(d.Body.Elements))].(*Table) == result0 ==> elemsOK(d.Body.Elements)",
     'unchangedExcept("Body.Elements", "cell:any")'] + built("result0", "err == nil"),
    []))
INR = "0 <= row && row < old(len(t.Rows)) && 0 <= col && col < old(len(t.Rows[row].Cells))"
parts.append('''
// AddNestedTable builds its table exactly as CreateTable does and appends a copy of the table header to the
// cell's nested-table list; the result points at that list element. Rejected arguments change nothing.
''' + contract("(*Table).AddNestedTable", "C09", ["t != nil"],
    ["modifies TableCell.Tables, Table.*",
     f"err == nil <==> ({INR} && cfgValid(config))", "err != nil ==> result0 == nil && unchangedHeap()",
     "err == nil ==> len(old(&t.Rows[row].Cells[col]).Tables) == old(len(t.Rows[row].Cells[col].Tables)) + 1 && result0 == &old(&t.Rows[row].Cells[col]).Tables[old(len(t.Rows[row].Cells[col].Tables))]",
     "err == nil ==> forall k int :: 0 <= k && k < old(len(t.Rows[row].Cells[col].Tables)) ==> old(&t.Rows[row].Cells[col]).Tables[k] == old(t.Rows[row].Cells[col].Tables[k])",
     ] + built("result0", "err == nil"),
    loops("nestedTable", "tableRow")))
EXTRA = open(sys.argv[1]).read() if len(sys.argv) > 1 else ""
sys.stdout.write("\n".join(parts) + EXTRA)
