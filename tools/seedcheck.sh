#!/bin/bash
# usage: seedcheck.sh <seed_out/N dir> <seeded-id> <property> <package dir relative to repo, e.g. pkg/document> "<needs>"
# Confirms a seeded change independently in a scratch worktree of /repo (removed afterwards) and, when all
# conditions hold, stores it as /verif/seeded/<id>/{patch.diff,demo_test.go,meta.json}.
set -u
export GOFLAGS=-mod=mod GOPROXY=off GOSUMDB=off GOTOOLCHAIN=local
src=$1; id=$2; prop=$3; pkg=$4; needs=${5:-}
wt=$(mktemp -d /tmp/seedcheck.XXXXXX); rmdir $wt
git -C /repo worktree add -q --detach $wt HEAD || exit 2
cleanup() { git -C /repo worktree remove --force $wt; }
trap cleanup EXIT
cd $wt
cp $src/demo_test.go $pkg/zz_seed_demo_test.go
tests=$(grep -o 'func Test[A-Za-z0-9_]*' $pkg/zz_seed_demo_test.go | sed 's/func //' | paste -sd'|')
echo "== demo on pristine (must pass)"; go test -vet=off -count=1 -timeout 120s -run "^($tests)\$" ./$pkg/ > /tmp/seed_pristine.log 2>&1; p=$?; tail -2 /tmp/seed_pristine.log
git apply $src/patch.diff || { echo "patch does not apply"; exit 1; }
echo "== build"; go build ./pkg/... ; b=$?
echo "== demo with change (must fail)"; go test -vet=off -count=1 -timeout 120s -run "^($tests)\$" ./$pkg/ > /tmp/seed_changed.log 2>&1; c=$?; tail -3 /tmp/seed_changed.log | cut -c1-200
rm $pkg/zz_seed_demo_test.go
echo "== existing suite with change (must pass)"; go test -vet=off -count=1 ./pkg/... ./test/... > /tmp/seed_suite.log 2>&1; s=$?; tail -4 /tmp/seed_suite.log
if [ $p -eq 0 ] && [ $b -eq 0 ] && [ $c -ne 0 ] && [ $s -eq 0 ]; then
  d=/verif/seeded/$id; mkdir -p $d
  cp $src/patch.diff $d/patch.diff; cp $src/demo_test.go $d/demo_test.go
  [ -f $src/notes.txt ] && cp $src/notes.txt $d/notes.txt
  python3 - "$d" "$prop" "$pkg" "$needs" "$tests" <<'PY'
import json,sys
d,prop,pkg,needs,tests=sys.argv[1:6]
json.dump({"property":prop,"expect":"violation","package":pkg,"needs_to_manifest":needs,"demo_tests":tests.split('|'),
 "confirmed_by":"tools/seedcheck.sh in a scratch git worktree of /repo: demo passes on the pristine tree, patch applies, go build ./pkg/... ok, demo fails with the change, go test ./pkg/... ./test/... all ok with the change",
 "origin":"independent sub-agent given only the property text and a scratch worktree"},open(d+"/meta.json","w"),indent=1)
PY
  echo "CONFIRMED -> $d"
else
  echo "NOT CONFIRMED pristine=$p build=$b changed=$c suite=$s"; exit 1
fi
