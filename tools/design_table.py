#!/usr/bin/env python3
"""Prints the per-property table of DESIGN.md §6 (functions, obligations, wall time) from the evidence files."""
import json,glob
for f in sorted(glob.glob('/verif/evidence/C*.json')):
    e=json.load(open(f)); c=e['coverage']
    print("| %s | %d | %d | %d | %.0f s |"%(e['property_id'],len(c.get('functions_under_contract') or []),c['obligations'],c.get('known_findings',0),e['wall_s']))
