#!/usr/bin/env python3
"""Generates /repo/pkg/document/zz_contracts_verif_reader.go: thin safety + termination contracts for the
XML reader of document.go (property C06). Mechanical: one contract per parse*/skipElement/readElementText
function: pointer parameters non-nil, the decoder's ghost token budget never grows, every token loop
decreases it, and a (pointer, error) result is non-nil on success."""
import re, subprocess, os
src=open('/repo/pkg/document/document.go').read()
sigs=re.findall(r'^func \(d \*Document\) ((?:parse\w+|skipElement|readElementText|updateNextImageID))\((.*?)\) (.*?) \{$', src, re.M)
env=dict(os.environ, GOVC_SKIP='table2,reader', GOFLAGS='-mod=mod', GOPROXY='off', GOSUMDB='off', GOTOOLCHAIN='local')
# loop listing needs contracts to exist: write a stub first
# Hand-written additions per function (the only non-mechanical part).
EXTRA_REQ={
 'parseDocument':['d.Body == nil'],
 'parseBodyElement':['d.Body != nil'],
 'parseDocumentRelationships':['d.documentRelationships != nil'],
 'parseStyles':['d.styleManager != nil'],
}
EXTRA_INV={
 'parseDocument':['d.Body == nil'],
 'parseDocumentElement':['d.Body != nil && elemsOK(d.Body.Elements)'],
}
EXTRA_ENS={
 'parseDocument':['result == nil ==> d.Body != nil && elemsOK(d.Body.Elements)'],
 'parseDocumentElement':['d.Body != nil && elemsOK(d.Body.Elements)'],
 'parseBodySubElement':['err == nil && result0 != nil ==> ref(result0) != nil'],
 'parseContentTypes':['result == nil ==> d.contentTypes != nil'],
 'parseRelationships':['result == nil ==> d.relationships != nil'],
}
TAIL='''
// updateNextImageID only sets the image counter, and sets it above the number of every media part named
// word/media/image<m>.<anything> of the opened package (C10: mediaFresh, zz_contracts_verif_image.go), whatever
// other names the package uses for its media.
//@ func (*Document).updateNextImageID
//@ props C06, C10
//@ requires d != nil
//@ modifies Document.nextImageID
//@ ensures d.nextImageID >= 0
//@ ensures mediaFresh(d)
//@ loop 1
//@   invariant unchangedHeap()
//@   invariant maxImageID >= -1
//@   invariant forall m int, e string :: {"word/media/" + ("image" + (itoa(m) + e))} dotExt(e) && seen(imgPart(m, e)) ==> m <= maxImageID

// The opened document is usable: every container the editing and saving code dereferences exists.
// C04 (pass-through): every entry of the archive is carried into the part map under its name with exactly its
// bytes (the last entry of a name wins), and the part map holds nothing else.
// partIs(p, f): the byte slice p holds exactly the content of zip entry f.
//@ spec partIs(p []byte, f *zip.File) bool = len(p) == zfLen(f) && (forall b int :: 0 <= b && b < len(p) ==> p[b] == zfByte(f, b))
//@ spec lastOfName(fs []*zip.File, i int, n int) bool = forall j int :: i < j && j < n ==> fs[j].FileHeader.Name != fs[i].FileHeader.Name

//@ func openFromZipReader
//@ props C06, C04
//@ wf map:string:[]byte
//@ requires zipReader != nil
//@ requires forall i int :: 0 <= i && i < len(zipReader.File) ==> zipReader.File[i] != nil
//@ ensures err == nil ==> docParts(result0)
//@ ensures err == nil ==> elemsOK(result0.Body.Elements)
//@ ensures err == nil ==> mediaFresh(result0)   // C10: the image counter is above every word/media/image<m>.<ext> of the package
//@ ensures err != nil ==> result0 == nil
//@ ensures err == nil ==> forall i int :: 0 <= i && i < len(zipReader.File) && lastOfName(zipReader.File, i, len(zipReader.File)) ==> has(result0.parts, zipReader.File[i].FileHeader.Name) && partIs(result0.parts[zipReader.File[i].FileHeader.Name], zipReader.File[i])
//@ ensures err == nil ==> forall k string :: has(result0.parts, k) ==> exists i int :: 0 <= i && i < len(zipReader.File) && zipReader.File[i].FileHeader.Name == k
//@ loop 1
//@   invariant doc != nil && fresh(doc) && doc.parts != nil && doc.documentRelationships != nil
//@   invariant forall i int :: 0 <= i && i < len(zipReader.File) ==> zipReader.File[i] != nil
//@   invariant 0 <= #i && #i <= len(zipReader.File)
//@   invariant forall i int :: 0 <= i && i < #i && lastOfName(zipReader.File, i, #i) ==> has(doc.parts, zipReader.File[i].FileHeader.Name) && partIs(doc.parts[zipReader.File[i].FileHeader.Name], zipReader.File[i])
//@   invariant forall k string :: has(doc.parts, k) ==> exists i int :: 0 <= i && i < #i && zipReader.File[i].FileHeader.Name == k

// Open (file path) is the same code after zip.OpenReader; it hands openFromZipReader the address of the
// Reader embedded in the ReadCloser, an interior pointer the engine does not model, so only
// OpenFromMemory is under contract.
//@ func OpenFromMemory
//@ props C06, C10
//@ requires readCloser != nil
//@ ensures err == nil ==> docParts(result0) && elemsOK(result0.Body.Elements)
//@ ensures err == nil ==> mediaFresh(result0)
//@ ensures err != nil ==> result0 == nil
'''

def emit(loops):
    out=['//go:build verif','','// Thin safety and termination contracts for the XML reader (property C06), read by /verif/engine (govc).',
         '// GENERATED by /verif/tools/gen_reader_contracts.py from the signatures and loop structure of document.go;',
         '// comments only: with or without the build tag this file adds no code to the package.','package document','']
    for name,params,res in sigs:
        out.append(f'//@ func (*Document).{name}')
        out.append('//@ props C06')
        req=['d != nil']
        for p in params.split(','):
            p=p.strip()
            if not p: continue
            f=p.split()
            if len(f)==2 and f[1].startswith('*'):
                req.append(f'{f[0]} != nil')
        req+=EXTRA_REQ.get(name,[])
        out.append('//@ requires '+' && '.join(req))
        for e in EXTRA_ENS.get(name,[]):
            out.append('//@ ensures '+e)
        uses_dec='decoder *xml.Decoder' in params
        if uses_dec:
            out.append('//@ ensures xmlRem() <= old(xmlRem())')
            out.append('//@ ensures old(d.Body) != nil ==> d.Body != nil')
            out.append('//@ ensures old(d.Body) != nil && old(elemsOK(d.Body.Elements)) ==> elemsOK(d.Body.Elements)')
        m=re.match(r'\((\*\w+), error\)',res)
        if m:
            out.append('//@ ensures err == nil ==> result0 != nil')
        for (n,tok) in loops.get(name,[]):
            if tok:
                out.append(f'//@ loop {n}')
                for inv in EXTRA_INV.get(name,[]):
                    out.append('//@   invariant '+inv)
                if uses_dec:
                    out.append('//@   invariant xmlRem() <= old(xmlRem())')
                    out.append('//@   invariant old(d.Body) != nil ==> d.Body != nil')
                    if name not in EXTRA_INV:
                        out.append('//@   invariant old(d.Body) != nil && old(elemsOK(d.Body.Elements)) ==> elemsOK(d.Body.Elements)')
                out.append('//@   decreases xmlRem()')
        out.append('')
    out+=['//@ func getAttributeValue','//@ props C06','']
    out+=TAIL.split('\n')
    open('/repo/pkg/document/zz_contracts_verif_reader.go','w').write('\n'.join(out))
emit({})
env['GOVC_SKIP']='table2'
o=subprocess.run(['/verif/bin/govc','verify','-f','parse,skipElement,readElementText,updateNextImageID','-nosolve','-v'],env=env,capture_output=True,text=True).stdout
loops={}
for line in o.splitlines():
    m=re.match(r'\s+document\.\(\*Document\)\.(\w+) loop (\d+): line \d+ block \d+ \((.*?)\)( token-loop)?',line)
    if m: loops.setdefault(m.group(1),[]).append((int(m.group(2)),bool(m.group(4))))
emit(loops)
print(len(sigs),'functions;',sum(1 for v in loops.values() for x in v if x[1]),'token loops')
