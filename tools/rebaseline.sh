#!/bin/bash
# usage: tools/rebaseline.sh C01 C02 ...   — rewrites contracts/baseline.json, contracts/timing.json and evidence/<id>.json
# for the given properties from /repo's current tree (run on an otherwise idle machine: an obligation that times out under
# load is dropped from the baseline and reported below as "violations=" in the summary line)
cd /verif
for p in "$@"; do
  bin/govc check -p $p -write-baseline ${PAR:+-par $PAR} 2>&1 | grep -E "^(property=|VIOLATION|UNDECIDED|VACUOUS|ERROR)" | cut -c1-300
done
