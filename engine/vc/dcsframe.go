package vc

import (
	"fmt"
	"sort"
	"strings"
)

// Frame rule for the generated deep-copy predicates of recursive struct types.
//
// dcs_T(fuel, H.., n, a, b) ("the struct at a is a deep copy of the struct at b, made of memory at or above
// n") is defined by recursion over the Go type; beyond its fuel the solver cannot see that such a fact
// survives a heap update elsewhere or a lower bound n. Both are meta-theorems of the definition:
//
//	dcs_T(f, H, n, a, b)  holds, a lies at or above n, b below m (m <= n),
//	H is closed below m (every reference/slice/interface stored in a cell below m denotes memory below m),
//	H' agrees with H on every cell below m and on every cell at or above n
//	  ==>  dcs_T(f, H', n, a, b)
//
// (the definition reads only cells reachable from a - all at or above n by the definition itself - and
// cells reachable from b - all below m by closure), and
//
//	dcs_T(f, H, n, a, b), n' <= n  ==>  dcs_T(f, H, n', a, b)      (n occurs only as a lower bound).
//
// The executor records a snapshot of the heap versions wherever such facts enter the verification condition
// (after a call whose contract mentions deepcopy, at a loop head whose invariants mention it) and, before an
// obligation is generated, instantiates the rule from every snapshot to the current heap versions, with
// m = the allocation bound at function entry. The side conditions are part of the emitted implication: the
// solver has to prove them, nothing is assumed about the heaps.

type heapSnap struct {
	heaps map[string]string
	epoch int
	id    int
	key   string
}

func (c *FnCtx) recordSnap(st *State) {
	hs := map[string]string{}
	key := ""
	for _, h := range c.dcsHeaps() {
		hs[h] = st.Heap(h)
		key += hs[h] + ","
	}
	for _, sn := range c.snaps {
		if sn.key == key && sn.epoch == st.epoch {
			return
		}
	}
	c.snaps = append(c.snaps, &heapSnap{heaps: hs, epoch: st.epoch, id: len(c.snaps), key: key})
}

// mentionsRecursiveDcs: the SMT text mentions a recursive deep-copy predicate.
func (c *FnCtx) mentionsRecursiveDcs(text string) bool {
	for _, pf := range c.g.recursiveDcs() {
		if strings.Contains(text, pureSym(pf)+" ") {
			return true
		}
	}
	return false
}

// recursiveDcs: the generated deep-copy predicates that are recursive, in a stable order.
func (g *Gen) recursiveDcs() []*PureFn {
	var out []*PureFn
	for _, pf := range g.Pures {
		if pf.DcsType != nil && pf.Recursive {
			out = append(out, pf)
		}
	}
	sort.Slice(out, func(i, j int) bool { return out[i].Name < out[j].Name })
	return out
}

func (c *FnCtx) dcsHeaps() []string {
	set := map[string]bool{}
	for _, pf := range c.g.recursiveDcs() {
		for _, h := range pf.Heaps {
			if !strings.HasPrefix(h, "$") {
				set[h] = true
			}
		}
	}
	var out []string
	for h := range set {
		out = append(out, h)
	}
	sort.Strings(out)
	return out
}

func mentionsCall(e SExpr, names ...string) bool {
	found := false
	var walk func(e SExpr)
	walk = func(e SExpr) {
		switch e := e.(type) {
		case SUnary:
			walk(e.X)
		case SBinary:
			walk(e.X)
			walk(e.Y)
		case SSelect:
			walk(e.X)
		case SIndex:
			walk(e.X)
			walk(e.I)
		case STypeAssert:
			walk(e.X)
		case SQuant:
			walk(e.Body)
		case SCall:
			for _, n := range names {
				if e.Fn == n {
					found = true
				}
			}
			for _, a := range e.Args {
				walk(a)
			}
		}
	}
	walk(e)
	return found
}

func clausesMentionDeepcopy(cls []Clause) bool {
	for _, cl := range cls {
		if mentionsCall(cl.Expr, "deepcopy", "deepcopyAbove") {
			return true
		}
	}
	return false
}

// emitDcsFrames instantiates the frame rule from every recorded snapshot to the heap versions of st.
func (c *FnCtx) emitDcsFrames(st *State) {
	if len(c.snaps) == 0 {
		return
	}
	g := c.g
	m := c.next0
	for _, pf := range g.recursiveDcs() {
		var hs []string
		for _, h := range pf.Heaps {
			if !strings.HasPrefix(h, "$") {
				hs = append(hs, h)
			}
		}
		app := func(fuel string, view func(h string) string, n string) string {
			args := []string{fuel}
			for _, h := range pf.Heaps {
				switch h {
				case "$next0":
					args = append(args, n)
				case "$next":
					args = append(args, "0") // unused by deep-copy predicates
				default:
					args = append(args, view(h))
				}
			}
			return fmt.Sprintf("(%s %s p_a p_b)", pureSym(pf), strings.Join(args, " "))
		}
		usesNext := false
		for _, h := range pf.Heaps {
			if h == "$next" {
				usesNext = true // not a pure function of (heaps, bound): no rule
			}
		}
		if usesNext {
			continue
		}
		cur := func(h string) string { return st.Heap(h) }
		curKey := ""
		for _, h := range hs {
			curKey += cur(h) + ","
		}
		// monotonicity in the bound, on the current heap versions
		mk := "mono:" + pf.Name + ":" + curKey
		if !c.dcsDone[mk] {
			c.dcsDone[mk] = true
			c.emit(fmt.Sprintf("(assert (forall ((f1 Fuel) (f2 Fuel) (n1 Int) (n2 Int) (p_a Ref) (p_b Ref)) (! (=> (and %s (<= n2 n1)) %s) :pattern (%s %s))))",
				app("f1", cur, "n1"), app("f2", cur, "n2"), app("f1", cur, "n1"), app("f2", cur, "n2")))
		}
		for _, sn := range c.snaps {
			if sn.epoch != st.epoch {
				continue
			}
			old := func(h string) string { return sn.heaps[h] }
			var differ []string
			for _, h := range hs {
				if old(h) != cur(h) {
					differ = append(differ, h)
				}
			}
			if len(differ) == 0 {
				continue
			}
			key := fmt.Sprintf("frame:%s:%d:%s", pf.Name, sn.id, curKey)
			if c.dcsDone[key] {
				continue
			}
			c.dcsDone[key] = true
			var side []string
			for _, h := range hs {
				if g.WFEntry && strings.HasSuffix(old(h), "@0") {
					continue // the entry version: closure below the entry bound is its well-formedness axiom
				}
				if ax := wfHeapBody(old(h), g.TE.heapSort[h], m); ax != "" {
					side = append(side, ax)
				}
			}
			for _, h := range differ {
				side = append(side, fmt.Sprintf("(forall ((r Ref)) (! (=> (or (alloc r %s) (not (alloc r n1))) (= (select %s r) (select %s r))) :pattern ((select %s r))))", m, cur(h), old(h), cur(h)))
			}
			c.emit(fmt.Sprintf("(assert (forall ((f1 Fuel) (n1 Int) (p_a Ref) (p_b Ref)) (! (=> (and %s (<= %s n1) (not (alloc p_a n1)) (not (= p_a nil)) (alloc p_b %s) %s) %s) :pattern (%s))))",
				app("f1", old, "n1"), m, m, strings.Join(side, " "), app("f1", cur, "n1"), app("f1", old, "n1")))
			c.assumed["frame rule for the generated deep-copy predicates of recursive types (meta-theorem of their definition, side conditions proved per instance): a deep-copy fact survives heap updates outside the copy (at or above its bound) and outside the memory below the function's entry bound when that memory is closed, and it is monotone in its bound"] = true
		}
	}
}

// wfHeapBody: "every reference/slice/interface stored in a cell of h below m denotes memory below m" (quantified
// formula, no assert), or "" when the heap holds no references.
func wfHeapBody(h, fullSort, m string) string {
	ax := wfHeapAxiom(h, fullSort, m)
	if ax == "" {
		return ""
	}
	return strings.TrimSuffix(strings.TrimPrefix(ax, "(assert "), ")")
}
