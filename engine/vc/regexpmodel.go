package vc

import (
	"fmt"
	"go/constant"
	"go/token"
	"go/types"
	"regexp/syntax"
	"unicode/utf8"

	"golang.org/x/tools/go/ssa"
)

// Shape model of package regexp. What a pattern matches is NOT modelled (results stay unconstrained
// strings/positions); only the documented shape of the results is assumed:
//   - FindStringIndex: nil or a two-element slice [a, b] with 0 <= a <= b <= len(s)
//   - Find(All)StringSubmatch(Index): nil or slices with 1+NumSubexp (2*(1+NumSubexp)) elements per match,
//     positions within the subject, group positions within the match or -1/-1, successive matches in order
//   - for a pattern given as a constant to MustCompile the engine asks Go's own regexp/syntax for
//     NumSubexp, for a lower bound on the byte length of every match, and for the groups that take part in
//     every match (those never report -1).
// Result slices are fresh arrays. Everything here is an assumption on a dependency and is reported.

const regexpAssumption = "package regexp (shape only): Find* results are nil or fresh slices with 1+NumSubexp entries per match (2 per entry for the Index variants), positions lie within the subject (0 <= start <= end <= len), groups within the match or -1, successive matches are ordered; NumSubexp, the minimum match length and the always-participating groups of a constant pattern are computed with Go's regexp/syntax; what a pattern matches is not modelled"

type reShape struct {
	nsub   int
	minLen int
	mand   map[int]bool
}

func analyzeRegexp(pat string) (*reShape, bool) {
	re, err := syntax.Parse(pat, syntax.Perl)
	if err != nil {
		return nil, false
	}
	sh := &reShape{nsub: re.MaxCap(), mand: map[int]bool{}}
	sh.minLen = reMinLen(re)
	for k := range reMandatory(re) {
		sh.mand[k] = true
	}
	return sh, true
}

// reMinLen: a lower bound on the number of bytes of any match of re.
func reMinLen(re *syntax.Regexp) int {
	switch re.Op {
	case syntax.OpLiteral:
		if re.Flags&syntax.FoldCase != 0 {
			return len(re.Rune) // case folding may change the byte length; one byte per rune is a lower bound
		}
		n := 0
		for _, r := range re.Rune {
			n += utf8.RuneLen(r)
		}
		return n
	case syntax.OpCharClass, syntax.OpAnyCharNotNL, syntax.OpAnyChar:
		return 1
	case syntax.OpCapture, syntax.OpPlus:
		return reMinLen(re.Sub[0])
	case syntax.OpRepeat:
		return re.Min * reMinLen(re.Sub[0])
	case syntax.OpConcat:
		n := 0
		for _, s := range re.Sub {
			n += reMinLen(s)
		}
		return n
	case syntax.OpAlternate:
		m := -1
		for _, s := range re.Sub {
			if l := reMinLen(s); m < 0 || l < m {
				m = l
			}
		}
		if m < 0 {
			m = 0
		}
		return m
	}
	return 0 // star, quest, empty-width operators, no-match
}

// reMandatory: capture groups that take part in every match of re.
func reMandatory(re *syntax.Regexp) map[int]bool {
	out := map[int]bool{}
	switch re.Op {
	case syntax.OpCapture:
		out[re.Cap] = true
		for k := range reMandatory(re.Sub[0]) {
			out[k] = true
		}
	case syntax.OpPlus:
		return reMandatory(re.Sub[0])
	case syntax.OpRepeat:
		if re.Min >= 1 {
			return reMandatory(re.Sub[0])
		}
	case syntax.OpConcat:
		for _, s := range re.Sub {
			for k := range reMandatory(s) {
				out[k] = true
			}
		}
	case syntax.OpAlternate:
		for i, s := range re.Sub {
			m := reMandatory(s)
			if i == 0 {
				out = m
				continue
			}
			for k := range out {
				if !m[k] {
					delete(out, k)
				}
			}
		}
	}
	return out
}

func reUFs(g *Gen) (nsub, minlen, mand string) {
	nsub = g.UF("re_nsub", []string{SRef}, SInt)
	minlen = g.UF("re_minlen", []string{SRef}, SInt)
	mand = g.UF("re_mand", []string{SRef, SInt}, SBool)
	ax := "(assert (forall ((r Ref)) (! (and (>= (re_nsub r) 0) (>= (re_minlen r) 0)) :pattern ((re_nsub r)) :pattern ((re_minlen r)))))"
	for _, a := range g.axioms {
		if a == ax {
			return
		}
	}
	g.axioms = append(g.axioms, ax)
	return
}

func registerRegexpModel() {
	externals["regexp.MustCompile"] = extReMustCompile
	externals["(*regexp.Regexp).FindStringIndex"] = extReFindStringIndex
	externals["(*regexp.Regexp).FindString"] = extReFindString
	externals["(*regexp.Regexp).FindStringSubmatch"] = extReFindStringSubmatch
	externals["(*regexp.Regexp).FindAllStringSubmatch"] = extReFindAllStringSubmatch
	externals["(*regexp.Regexp).FindAllStringSubmatchIndex"] = extReFindAllStringSubmatchIndex
}

func extReMustCompile(f *frame, cm *ssa.CallCommon, args []Val, st *State, name string, resT types.Type, pos token.Pos) Val {
	c := f.c
	nsub, minlen, mand := reUFs(c.g)
	r := f.freshResult(resT, st, name)
	c.assume(st, fmt.Sprintf("(not (= %s nil))", r.T))
	c.assumed[regexpAssumption] = true
	if k, ok := cm.Args[0].(*ssa.Const); ok && k.Value != nil && k.Value.Kind() == constant.String {
		if sh, ok := analyzeRegexp(constant.StringVal(k.Value)); ok {
			c.assume(st, fmt.Sprintf("(= (%s %s) %d)", nsub, r.T, sh.nsub))
			c.assume(st, fmt.Sprintf("(= (%s %s) %s)", c.g.UF("re_pat", []string{SRef}, SStr), r.T, c.g.StrLit(constant.StringVal(k.Value))))
			c.assume(st, fmt.Sprintf("(= (%s %s) %d)", minlen, r.T, sh.minLen))
			if c.reShapes == nil {
				c.reShapes = map[string]*reShape{}
			}
			c.reShapes[r.T] = sh
			for i := 1; i <= sh.nsub; i++ {
				if sh.mand[i] {
					c.assume(st, fmt.Sprintf("(%s %s %d)", mand, r.T, i))
				}
			}
		}
	}
	return r
}

// freshSliceResult: an unconstrained slice result that is nil or a fresh array.
func (f *frame) freshSliceResult(resT types.Type, st *State, name string) Val {
	pre := st.next
	f.havocNext(st)
	r := f.freshResult(resT, st, name)
	f.c.assume(st, fmt.Sprintf("(or (= (sarr %s) 0) (and (>= (sarr %s) %s) (= (soff %s) 0)))", r.T, r.T, pre, r.T))
	f.c.assume(st, fmt.Sprintf("(=> (= (sarr %s) 0) (= (slen %s) 0))", r.T, r.T))
	return r
}

func extReFindStringIndex(f *frame, cm *ssa.CallCommon, args []Val, st *State, name string, resT types.Type, pos token.Pos) Val {
	c := f.c
	_, minlen, _ := reUFs(c.g)
	r := f.freshSliceResult(resT, st, name)
	h := st.Heap(c.g.TE.CellHeap(types.Typ[types.Int]))
	a := fmt.Sprintf("(select %s (selem %s 0))", h, r.T)
	b := fmt.Sprintf("(select %s (selem %s 1))", h, r.T)
	c.assume(st, fmt.Sprintf("(=> (not (= (sarr %s) 0)) (and (= (slen %s) 2) (<= 0 %s) (<= %s %s) (<= %s (Str_len %s)) (>= (- %s %s) (%s %s))))", r.T, r.T, a, a, b, b, args[1].T, b, a, minlen, args[0].T))
	c.assumed[regexpAssumption] = true
	return r
}

func extReFindStringSubmatch(f *frame, cm *ssa.CallCommon, args []Val, st *State, name string, resT types.Type, pos token.Pos) Val {
	c := f.c
	nsub, _, _ := reUFs(c.g)
	r := f.freshSliceResult(resT, st, name)
	c.assume(st, fmt.Sprintf("(=> (not (= (sarr %s) 0)) (= (slen %s) (+ 1 (%s %s))))", r.T, r.T, nsub, args[0].T))
	c.assumed[regexpAssumption] = true
	return r
}

func extReFindAllStringSubmatch(f *frame, cm *ssa.CallCommon, args []Val, st *State, name string, resT types.Type, pos token.Pos) Val {
	c := f.c
	nsub, _, _ := reUFs(c.g)
	pre := st.next
	r := f.freshSliceResult(resT, st, name)
	inner := resT.Underlying().(*types.Slice).Elem()
	h := st.Heap(c.g.TE.CellHeap(inner))
	m := fmt.Sprintf("(select %s (selem %s i))", h, r.T)
	c.assume(st, fmt.Sprintf("(forall ((i Int)) (! (=> (and (<= 0 i) (< i (slen %s))) (and (= (slen %s) (+ 1 (%s %s))) (>= (sarr %s) %s) (= (soff %s) 0) (not (= (sarr %s) (sarr %s))))) :pattern ((selem %s i))))", r.T, m, nsub, args[0].T, m, pre, m, m, r.T, r.T))
	c.assumed[regexpAssumption] = true
	return r
}

func extReFindAllStringSubmatchIndex(f *frame, cm *ssa.CallCommon, args []Val, st *State, name string, resT types.Type, pos token.Pos) Val {
	c := f.c
	nsub, minlen, mand := reUFs(c.g)
	pre := st.next
	r := f.freshSliceResult(resT, st, name)
	inner := resT.Underlying().(*types.Slice).Elem()
	hs := st.Heap(c.g.TE.CellHeap(inner))
	hi := st.Heap(c.g.TE.CellHeap(types.Typ[types.Int]))
	re, s := args[0].T, args[1].T
	m := func(i string) string { return fmt.Sprintf("(select %s (selem %s %s))", hs, r.T, i) }
	at := func(i, j string) string { return fmt.Sprintf("(select %s (selem %s %s))", hi, m(i), j) }
	// per match: shape, whole-match positions
	c.assume(st, fmt.Sprintf("(forall ((i Int)) (! (=> (and (<= 0 i) (< i (slen %s))) (and (= (slen %s) (* 2 (+ 1 (%s %s)))) (>= (sarr %s) %s) (= (soff %s) 0) (not (= (sarr %s) (sarr %s))) (<= 0 %s) (<= %s %s) (<= %s (Str_len %s)) (>= (- %s %s) (%s %s)))) :pattern ((selem %s i))))",
		r.T, m("i"), nsub, re, m("i"), pre, m("i"), m("i"), r.T, at("i", "0"), at("i", "0"), at("i", "1"), at("i", "1"), s, at("i", "1"), at("i", "0"), minlen, re, r.T))
	// groups: -1/-1 or inside the match; groups that take part in every match are never -1
	lo, hi2 := at("i", "(* 2 k)"), at("i", "(+ (* 2 k) 1)")
	c.assume(st, fmt.Sprintf("(forall ((i Int) (k Int)) (! (=> (and (<= 0 i) (< i (slen %s)) (<= 1 k) (<= k (%s %s))) (and (or (and (= %s (- 1)) (= %s (- 1))) (and (<= %s %s) (<= %s %s) (<= %s %s))) (=> (%s %s k) (>= %s 0)))) :pattern ((selem %s i) (%s %s k))))",
		r.T, nsub, re, lo, hi2, at("i", "0"), lo, lo, hi2, hi2, at("i", "1"), mand, re, lo, r.T, mand, re))
	// the same group facts, one quantifier per group, for a regexp compiled from a constant in this function: they fire on
	// the match alone (the generic form above needs a re_mand term, which exists only for always-participating groups)
	if sh := c.reShapes[re]; sh != nil && sh.nsub <= 8 {
		for k := 1; k <= sh.nsub; k++ {
			lo, hi2 := at("i", fmt.Sprint(2*k)), at("i", fmt.Sprint(2*k+1))
			c.assume(st, fmt.Sprintf("(forall ((i Int)) (! (=> (and (<= 0 i) (< i (slen %s))) (or (and (= %s (- 1)) (= %s (- 1))) (and (<= %s %s) (<= %s %s) (<= %s %s)))) :pattern ((selem %s i))))",
				r.T, lo, hi2, at("i", "0"), lo, lo, hi2, hi2, at("i", "1"), r.T))
		}
	}
	// successive matches are ordered and do not overlap
	c.assume(st, fmt.Sprintf("(forall ((i Int) (j Int)) (! (=> (and (<= 0 i) (< i j) (< j (slen %s))) (<= %s %s)) :pattern ((selem %s i) (selem %s j))))", r.T, at("i", "1"), at("j", "0"), r.T, r.T))
	c.assumed[regexpAssumption] = true
	return r
}

// FindString: the leftmost match is a function of the pattern and the subject (regexp matching is deterministic);
// which text that is stays uninterpreted (re_find), only its length is bounded by the subject's.
func reFindUF(g *Gen) string {
	uf := g.UF("re_find", []string{SStr, SStr}, SStr)
	ax := "(assert (forall ((p Str) (s Str)) (! (<= (Str_len (re_find p s)) (Str_len s)) :pattern ((re_find p s)))))"
	for _, a := range g.axioms {
		if a == ax {
			return uf
		}
	}
	g.axioms = append(g.axioms, ax)
	return uf
}

func extReFindString(f *frame, cm *ssa.CallCommon, args []Val, st *State, name string, resT types.Type, pos token.Pos) Val {
	c := f.c
	pat := c.g.UF("re_pat", []string{SRef}, SStr)
	c.assumed[regexpAssumption] = true
	c.assumed["(*regexp.Regexp).FindString(s) is a function of the pattern and s (uninterpreted: re_find(pattern, s)), no longer than s; the pattern of a regexp compiled from a constant is that constant"] = true
	return Val{T: c.define(name, SStr, fmt.Sprintf("(%s (%s %s) %s)", reFindUF(c.g), pat, args[0].T, args[1].T)), Typ: resT}
}
