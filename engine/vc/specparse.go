package vc

import (
	"fmt"
	"strings"
	"unicode"
)

// Spec expression AST.
type SExpr interface{ String() string }

type (
	SIdent  struct{ Name string }
	SIntLit struct{ V string }
	SRealLit struct{ V string }
	SStrLit struct{ V string }
	SBoolLit struct{ V bool }
	SUnary  struct {
		Op string
		X  SExpr
	}
	SBinary struct {
		Op   string
		X, Y SExpr
	}
	SSelect struct {
		X SExpr
		F string
	}
	SIndex struct{ X, I SExpr }
	SSliceE struct{ X, Lo, Hi SExpr }
	SCall  struct {
		Fn   string
		Args []SExpr
	}
	STypeAssert struct {
		X SExpr
		T STypeRef
	}
	SQuant struct {
		Forall bool
		Vars   []SBinder
		Body   SExpr
		Pats   []SExpr
	}
	SBinder struct {
		Name string
		T    STypeRef
	}
	// STypeRef: textual type like "int", "*TableCell", "[]string", "style.Style"
	STypeRef struct{ Text string }
)

func (e SIdent) String() string   { return e.Name }
func (e SIntLit) String() string  { return e.V }
func (e SRealLit) String() string { return e.V }
func (e SStrLit) String() string  { return fmt.Sprintf("%q", e.V) }
func (e SBoolLit) String() string { return fmt.Sprint(e.V) }
func (e SUnary) String() string   { return e.Op + e.X.String() }
func (e SBinary) String() string  { return "(" + e.X.String() + " " + e.Op + " " + e.Y.String() + ")" }
func (e SSelect) String() string  { return e.X.String() + "." + e.F }
func (e SIndex) String() string   { return e.X.String() + "[" + e.I.String() + "]" }
func (e SSliceE) String() string {
	lo, hi := "", ""
	if e.Lo != nil {
		lo = e.Lo.String()
	}
	if e.Hi != nil {
		hi = e.Hi.String()
	}
	return e.X.String() + "[" + lo + ":" + hi + "]"
}
func (e SCall) String() string {
	var a []string
	for _, x := range e.Args {
		a = append(a, x.String())
	}
	return e.Fn + "(" + strings.Join(a, ", ") + ")"
}
func (e STypeAssert) String() string { return e.X.String() + ".(" + e.T.Text + ")" }
func (e SQuant) String() string {
	q := "exists"
	if e.Forall {
		q = "forall"
	}
	var v []string
	for _, b := range e.Vars {
		v = append(v, b.Name+" "+b.T.Text)
	}
	return "(" + q + " " + strings.Join(v, ", ") + " :: " + e.Body.String() + ")"
}

type tok struct {
	kind string // id, int, real, str, op, eof
	text string
	pos  int
}

type sparser struct {
	toks []tok
	i    int
	src  string
}

func lexSpec(s string) ([]tok, error) {
	var out []tok
	i := 0
	for i < len(s) {
		c := s[i]
		switch {
		case c == ' ' || c == '\t' || c == '\n' || c == '\r':
			i++
		case unicode.IsLetter(rune(c)) || c == '_' || c == '#':
			j := i + 1
			for j < len(s) && (unicode.IsLetter(rune(s[j])) || unicode.IsDigit(rune(s[j])) || s[j] == '_') {
				j++
			}
			out = append(out, tok{"id", s[i:j], i})
			i = j
		case c >= '0' && c <= '9':
			j := i
			isReal := false
			for j < len(s) && ((s[j] >= '0' && s[j] <= '9') || s[j] == '.') {
				if s[j] == '.' {
					// stop at ".." or ".ident"
					if j+1 < len(s) && !(s[j+1] >= '0' && s[j+1] <= '9') {
						break
					}
					isReal = true
				}
				j++
			}
			if isReal {
				out = append(out, tok{"real", s[i:j], i})
			} else {
				out = append(out, tok{"int", s[i:j], i})
			}
			i = j
		case c == '"':
			j := i + 1
			var b strings.Builder
			for j < len(s) && s[j] != '"' {
				if s[j] == '\\' && j+1 < len(s) {
					j++
					switch s[j] {
					case 'n':
						b.WriteByte('\n')
					case 't':
						b.WriteByte('\t')
					default:
						b.WriteByte(s[j])
					}
					j++
					continue
				}
				b.WriteByte(s[j])
				j++
			}
			if j >= len(s) {
				return nil, fmt.Errorf("unterminated string at %d", i)
			}
			out = append(out, tok{"str", b.String(), i})
			i = j + 1
		default:
			ops := []string{"<==>", "==>", "::", "&&", "||", "==", "!=", "<=", ">=", ".(", "+", "-", "*", "/", "%", "<", ">", "!", "&", "(", ")", "[", "]", ",", ".", ":", "{", "}"}
			matched := false
			for _, op := range ops {
				if strings.HasPrefix(s[i:], op) {
					out = append(out, tok{"op", op, i})
					i += len(op)
					matched = true
					break
				}
			}
			if !matched {
				return nil, fmt.Errorf("unexpected character %q at %d in %q", c, i, s)
			}
		}
	}
	out = append(out, tok{"eof", "", len(s)})
	return out, nil
}

// ParseSpec parses a spec expression.
func ParseSpec(s string) (e SExpr, err error) {
	toks, err := lexSpec(s)
	if err != nil {
		return nil, err
	}
	p := &sparser{toks: toks, src: s}
	defer func() {
		if r := recover(); r != nil {
			if pe, ok := r.(parseErr); ok {
				err = fmt.Errorf("%s in %q", string(pe), s)
				return
			}
			panic(r)
		}
	}()
	e = p.expr()
	if p.peek().kind != "eof" {
		p.fail("trailing input at " + p.peek().text)
	}
	return e, nil
}

type parseErr string

func (p *sparser) fail(m string)  { panic(parseErr(m)) }
func (p *sparser) peek() tok      { return p.toks[p.i] }
func (p *sparser) next() tok      { t := p.toks[p.i]; p.i++; return t }
func (p *sparser) isOp(s string) bool {
	t := p.peek()
	return t.kind == "op" && t.text == s
}
func (p *sparser) isID(s string) bool {
	t := p.peek()
	return t.kind == "id" && t.text == s
}
func (p *sparser) expect(s string) {
	if !p.isOp(s) {
		p.fail(fmt.Sprintf("expected %q, got %q", s, p.peek().text))
	}
	p.i++
}

func (p *sparser) expr() SExpr {
	if p.isID("forall") || p.isID("exists") {
		return p.quant()
	}
	return p.iff()
}

func (p *sparser) quant() SExpr {
	q := p.next()
	var vars []SBinder
	for {
		n := p.next()
		if n.kind != "id" {
			p.fail("binder name expected")
		}
		t := p.typeRef()
		vars = append(vars, SBinder{n.text, t})
		if p.isOp(",") {
			p.i++
			continue
		}
		break
	}
	p.expect("::")
	var pats []SExpr
	for p.isOp("{") {
		p.i++
		first := p.expr()
		if p.isOp(",") { // multi-pattern {a, b}
			terms := []SExpr{first}
			for p.isOp(",") {
				p.i++
				terms = append(terms, p.expr())
			}
			first = SCall{"$multi", terms}
		}
		pats = append(pats, first)
		p.expect("}")
	}
	body := p.expr()
	return SQuant{Forall: q.text == "forall", Vars: vars, Body: body, Pats: pats}
}

func (p *sparser) typeRef() STypeRef {
	var b strings.Builder
	for {
		if p.isOp("*") {
			b.WriteString("*")
			p.i++
		} else if p.isOp("[") {
			p.i++
			p.expect("]")
			b.WriteString("[]")
		} else {
			break
		}
	}
	n := p.next()
	if n.kind != "id" {
		p.fail("type name expected, got " + n.text)
	}
	b.WriteString(n.text)
	if n.text == "map" {
		p.expect("[")
		k := p.typeRef()
		p.expect("]")
		v := p.typeRef()
		b.WriteString("[" + k.Text + "]" + v.Text)
		return STypeRef{b.String()}
	}
	if p.isOp(".") && p.toks[p.i+1].kind == "id" {
		p.i++
		m := p.next()
		b.WriteString("." + m.text)
	}
	return STypeRef{b.String()}
}

func (p *sparser) iff() SExpr {
	x := p.impl()
	for p.isOp("<==>") {
		p.i++
		y := p.impl()
		x = SBinary{"<==>", x, y}
	}
	return x
}

func (p *sparser) impl() SExpr {
	x := p.or()
	if p.isOp("==>") {
		p.i++
		var y SExpr
		if p.isID("forall") || p.isID("exists") {
			y = p.quant()
		} else {
			y = p.impl()
		}
		return SBinary{"==>", x, y}
	}
	return x
}

func (p *sparser) or() SExpr {
	x := p.and()
	for p.isOp("||") {
		p.i++
		y := p.and()
		x = SBinary{"||", x, y}
	}
	return x
}

func (p *sparser) and() SExpr {
	x := p.cmp()
	for p.isOp("&&") {
		p.i++
		var y SExpr
		if p.isID("forall") || p.isID("exists") {
			y = p.quant()
		} else {
			y = p.cmp()
		}
		x = SBinary{"&&", x, y}
	}
	return x
}

func (p *sparser) cmp() SExpr {
	x := p.add()
	for _, op := range []string{"==", "!=", "<=", ">=", "<", ">"} {
		if p.isOp(op) {
			p.i++
			y := p.add()
			return SBinary{op, x, y}
		}
	}
	return x
}

func (p *sparser) add() SExpr {
	x := p.mul()
	for p.isOp("+") || p.isOp("-") {
		op := p.next().text
		y := p.mul()
		x = SBinary{op, x, y}
	}
	return x
}

func (p *sparser) mul() SExpr {
	x := p.unary()
	for p.isOp("*") || p.isOp("/") || p.isOp("%") {
		op := p.next().text
		y := p.unary()
		x = SBinary{op, x, y}
	}
	return x
}

func (p *sparser) unary() SExpr {
	if p.isOp("!") || p.isOp("-") || p.isOp("&") {
		op := p.next().text
		x := p.unary()
		return SUnary{op, x}
	}
	return p.postfix()
}

func (p *sparser) postfix() SExpr {
	x := p.primary()
	for {
		switch {
		case p.isOp(".("):
			p.i++
			t := p.typeRef()
			p.expect(")")
			x = STypeAssert{x, t}
		case p.isOp("."):
			p.i++
			n := p.next()
			if n.kind != "id" {
				p.fail("field name expected")
			}
			x = SSelect{x, n.text}
		case p.isOp("["):
			p.i++
			var lo, hi SExpr
			if p.isOp(":") {
				p.i++
				if !p.isOp("]") {
					hi = p.expr()
				}
				p.expect("]")
				x = SSliceE{x, nil, hi}
				continue
			}
			lo = p.expr()
			if p.isOp(":") {
				p.i++
				if !p.isOp("]") {
					hi = p.expr()
				}
				p.expect("]")
				x = SSliceE{x, lo, hi}
				continue
			}
			p.expect("]")
			x = SIndex{x, lo}
		case p.isOp("("):
			id, ok := x.(SIdent)
			if !ok {
				// package-qualified call pkg.F(...)
				if sel, ok2 := x.(SSelect); ok2 {
					if base, ok3 := sel.X.(SIdent); ok3 {
						id = SIdent{base.Name + "." + sel.F}
						ok = true
					}
				}
			}
			if !ok {
				p.fail("call of non-identifier")
			}
			p.i++
			var args []SExpr
			for !p.isOp(")") {
				args = append(args, p.expr())
				if p.isOp(",") {
					p.i++
				}
			}
			p.expect(")")
			x = SCall{id.Name, args}
		default:
			return x
		}
	}
}

func (p *sparser) primary() SExpr {
	t := p.next()
	switch t.kind {
	case "id":
		switch t.text {
		case "true":
			return SBoolLit{true}
		case "false":
			return SBoolLit{false}
		case "forall", "exists":
			p.i--
			return p.quant()
		}
		return SIdent{t.text}
	case "int":
		return SIntLit{t.text}
	case "real":
		return SRealLit{t.text}
	case "str":
		return SStrLit{t.text}
	case "op":
		if t.text == "(" {
			e := p.expr()
			p.expect(")")
			return e
		}
	}
	p.fail("unexpected token " + t.text)
	return nil
}
