package vc

import (
	"fmt"
	"os"
	"strings"
)

// Cex is the outcome of a counterexample search for a failed obligation.
type Cex struct {
	Status    string
	Detail    string
	Confirmed bool
}

// SearchCounterexample re-solves a failed obligation in a weakened, quantifier-free
// "search variant" (all quantified hypotheses dropped) to obtain a candidate model.
// A candidate counts for nothing until it is replayed on the real code.
func (g *Gen) SearchCounterexample(header string, s *SolveResult, results []*FnResult, o CheckOpts) *Cex {
	var r *FnResult
	for _, x := range results {
		if x.Key == s.Fn {
			r = x
		}
	}
	if r == nil {
		return nil
	}
	var b strings.Builder
	if r.header != "" {
		header = r.header
	}
	for _, l := range strings.Split(header, "\n") {
		if strings.Contains(l, "(forall ") || strings.Contains(l, "(exists ") {
			continue
		}
		b.WriteString(l + "\n")
	}
	for _, l := range r.Lines[:s.Obl.PrefixLen] {
		if strings.Contains(l, "(forall ") || strings.Contains(l, "(exists ") {
			continue
		}
		b.WriteString(l + "\n")
	}
	if strings.Contains(s.Obl.Goal, "(forall ") || strings.Contains(s.Obl.Goal, "(exists ") {
		return &Cex{Status: "skipped", Detail: "goal is quantified; no quantifier-free search variant"}
	}
	fmt.Fprintf(&b, "(assert %s)\n(assert (not %s))\n(check-sat)\n(get-model)\n", s.Obl.Reach, s.Obl.Goal)
	file := strings.TrimSuffix(s.File, ".smt2") + ".search.smt2"
	os.WriteFile(file, []byte(b.String()), 0o644)
	st, out, _ := runSolver(solvers[0], file, 5)
	if st != "sat" {
		return &Cex{Status: "search variant: " + st, Detail: ""}
	}
	return &Cex{Status: "candidate model found (not replayed)", Detail: trunc(out, 6000)}
}
