package vc

import (
	"fmt"
	"go/types"
	"os"
	"regexp"
	"sort"
	"strings"

	"golang.org/x/tools/go/ssa"
)

func envBase() []string { return os.Environ() }

// FnResult is the outcome of generating VCs for one function.
type FnResult struct {
	Key       string
	Obls      []*Obligation
	Lines     []string
	Err       error // outside-subset or contract error
	Warnings  []string
	Assumed   []string
	Loops     []string
	InstrCount int
	header     string
	wf         func(h string) bool
}

// GenFunc generates the obligations of one function under contract.
func (g *Gen) GenFunc(key string) (res *FnResult) {
	res = &FnResult{Key: key}
	fn := g.FuncByKey(key)
	if fn == nil {
		res.Err = fmt.Errorf("contract binds to no function: %s", key)
		return
	}
	con := g.CS.Funcs[key]
	c := &FnCtx{g: g, top: fn, contract: con, assumed: map[string]bool{}}
	res.wf = c.wantWF
	defer func() {
		c.pruneConstMaps()
		res.Obls = c.obls
		res.Lines = c.lines
		res.Warnings = c.warnings
		for k := range c.assumed {
			res.Assumed = append(res.Assumed, k)
		}
		sort.Strings(res.Assumed)
		if r := recover(); r != nil {
			if e, ok := r.(ErrSubset); ok {
				res.Err = fmt.Errorf("outside-subset: %s", e.Msg)
				return
			}
			panic(r)
		}
	}()
	for _, b := range fn.Blocks {
		res.InstrCount += len(b.Instrs)
	}
	st := &State{g: g, reach: "true", heaps: map[string]string{}, armed: map[*ssa.Defer]string{}, merges: map[string][]mergeBranch{}}
	c.next0 = c.declare("next0", SInt)
	c.emit(fmt.Sprintf("(assert (>= %s 1))", c.next0))
	c.emit(fmt.Sprintf("(assert (= wfnext@0 %s))", c.next0))
	st.next = c.next0
	st.tagLo = c.next0
	var args []Val
	fr0 := &frame{c: c, fn: fn}
	for _, p := range fn.Params {
		n := c.declare("p_"+sanitize(p.Name()), g.TE.SortOf(p.Type()))
		c.assume(st, c.wellFormed(n, p.Type(), st.next))
		args = append(args, fr0.mkVal(n, p.Type()))
	}
	// A function literal under contract: each captured variable is a cell that exists before the call
	// (go/ssa passes a pointer to it); the cell is allocated, its content is unconstrained beyond well-formedness.
	c.freeVals = map[*ssa.FreeVar]Val{}
	for _, fv := range fn.FreeVars {
		n := c.declare("fv_"+sanitize(fv.Name()), g.TE.SortOf(fv.Type()))
		c.assume(st, c.wellFormed(n, fv.Type(), st.next))
		c.assume(st, fmt.Sprintf("(not (= %s nil))", n))
		c.freeVals[fv] = fr0.mkVal(n, fv.Type())
	}
	c.assumeConstMaps(st)
	// requires
	path := key
	if con != nil {
		env := &SpecEnv{G: g, Pkg: fn.Pkg.Pkg, Vars: map[string]SV{}, Cur: st, Old: st, Next0: st.next, FnScope: fnScope(fn)}
		for i, p := range fn.Params {
			env.Vars[p.Name()] = SV{Term: args[i].T, Typ: p.Type()}
		}
		fr0.c = c
		fr0.bindFreeVars(env, st)
		for _, rq := range con.Requires {
			c.assume(st, env.Eval(rq.Expr).Term)
		}
		for _, gd := range con.Ghosts {
			if gd.Init == nil {
				continue
			}
			// a ghost with an initialiser is a definition local to this verification; callers assume the
			// requires/ensures for their own value of the ghost, so those clauses must not mention it
			for _, cl := range append(append([]Clause{}, con.Requires...), con.Ensures...) {
				if mentionsIdent(cl.Expr, gd.Name) {
					res.Err = fmt.Errorf("contract error: ghost %s has an initialiser and is mentioned in a requires/ensures clause (%s)", gd.Name, cl.Text)
					return
				}
			}
			c.emit(fmt.Sprintf("(assert (= %s %s))", g.UF("ghost_"+gd.Name, nil, SInt), env.Eval(gd.Init).Term))
		}
	}
	for _, li := range findLoops(fn) {
		tok := ""
		for b := range li.blocks {
			for _, in := range b.Instrs {
				if c, ok := in.(ssa.CallInstruction); ok {
					if sc := c.Common().StaticCallee(); sc != nil && sc.String() == "(*encoding/xml.Decoder).Token" {
						tok = " token-loop"
					}
				}
			}
		}
		res.Loops = append(res.Loops, fmt.Sprintf("loop %d: line %d block %d (%s)%s", li.ordinal, g.Prog.Fset.Position(firstPos(li.header)).Line, li.header.Index, li.header.Comment, tok))
	}
	c.topArgs = args
	c.entry = st.clone()
	rets, fr := c.run(fn, args, st, path, con, true)
	if con == nil {
		return
	}
	for j, r := range rets {
		env := fr.specEnv(r.st, nil, nil)
		resultEnv(env, fn, r.vals)
		for i, en := range con.Ensures {
			if fgs := frameGoals(env, en.Expr); fgs != nil {
				for _, goal := range fgs {
					c.oblige(r.st, path, fmt.Sprintf("post%d@ret%d", i+1, j+1), goal, en.Text, r.pos)
				}
				continue
			}
			goal := env.Eval(en.Expr).Term
			c.oblige(r.st, path, fmt.Sprintf("post%d@ret%d", i+1, j+1), goal, en.Text, r.pos)
		}
		if con.HasModifies {
			ex := map[string]bool{}
			for _, m := range con.Modifies {
				if m == "*" {
					ex = nil
					break
				}
				for _, h := range g.resolveHeapSpec(fn.Pkg.Pkg, m) {
					ex[h] = true
				}
			}
			if ex != nil {
				for _, goal := range chunkFrame(g.unchangedAll(fr.entry, r.st, ex)) {
					if goal == "true" {
						// no other heap has a new version at this return: still an obligation (trivially discharged), so
						// that its class is in the baseline and a change that makes it fail is reported as a violation
						goal = "(and true true)"
					}
					c.oblige(r.st, path, fmt.Sprintf("frame:modifies@ret%d", j+1), goal, "only the heaps named in modifies change on pre-existing objects", r.pos)
				}
				// builders: only the builders listed as sb(...) may have a different content than at entry
				sb := sbHeap(g)
				// (a function whose inferred write set has no builder heap writes only builders that are its own plain
				// locals: nothing to show)
				if a, b := fr.entry.Heap(sb), r.st.Heap(sb); a != b && g.WriteSetOf(fn).Names[sb] {
					oe := env.clone()
					oe.Cur = fr.entry
					var keys []string
					for _, mb := range con.ModBuilders {
						keys = append(keys, oe.sbKey(oe.Eval(mb.Expr)))
					}
					c.oblige(r.st, path, fmt.Sprintf("frame:builders@ret%d", j+1), sbFrame(a, b, fr.entry.next, keys), "only the strings.Builders named as sb(...) in modifies change their content", r.pos)
				}
			}
		}
	}
	return
}

func posOf(g *Gen, p interface{ IsValid() bool }) string {
	return ""
}

// symTokens splits SMT text into the set of symbols it mentions.
func symTokens(texts ...string) map[string]bool {
	out := map[string]bool{}
	for _, t := range texts {
		start := -1
		for i := 0; i <= len(t); i++ {
			sep := i == len(t) || t[i] == ' ' || t[i] == '(' || t[i] == ')' || t[i] == '\n' || t[i] == '\t'
			if sep {
				if start >= 0 {
					out[t[start:i]] = true
					start = -1
				}
			} else if start < 0 {
				start = i
			}
		}
	}
	return out
}

// Header assembles everything that precedes the per-function lines (all symbols).
func (g *Gen) Header() string { return g.HeaderFor(nil) }

// HeaderFor assembles the declarations a function's VC mentions (used == nil: everything).
// Pruning is by symbol occurrence, closed under the definitions and axioms pulled in.
func (g *Gen) HeaderFor(r *FnResult) string {
	var used map[string]bool
	if r != nil {
		texts := append([]string{}, r.Lines...)
		for _, o := range r.Obls {
			texts = append(texts, o.Goal, o.Reach)
		}
		used = symTokens(texts...)
		// close under spec-function definitions and axioms
		for changed := true; changed; {
			changed = false
			for _, pd := range g.pureDefs {
				name, d := pd.Name, pd.Text
				if used[name] && !used["\x00def:"+name] {
					used["\x00def:"+name] = true
					for k := range symTokens(d) {
						if !used[k] {
							used[k] = true
							changed = true
						}
					}
				}
			}
			for i, a := range g.axioms {
				key := fmt.Sprintf("\x00ax:%d", i)
				if used[key] {
					continue
				}
				toks := symTokens(a)
				hit := false
				if k, keyed := g.axiomKey[a]; keyed {
					// keyed axiom: only for VCs that mention the key symbol
					if used[k] {
						used[key] = true
						changed = true
						for t := range toks {
							used[t] = true
						}
						if note := g.axiomNote[a]; note != "" {
							dup := false
							for _, x := range r.Assumed {
								dup = dup || x == note
							}
							if !dup {
								r.Assumed = append(r.Assumed, note)
							}
						}
					}
					continue
				}
				for _, n := range g.ufOrder {
					if toks[n] && used[n] {
						hit = true
						break
					}
				}
				if !hit {
					for _, pd := range g.pureDefs {
						n := pd.Name
						if toks[n] && used[n] {
							hit = true
							break
						}
					}
				}
				if hit {
					used[key] = true
					for k := range toks {
						if !used[k] {
							used[k] = true
							changed = true
						}
					}
				}
			}
		}
	}
	has := func(n string) bool { return used == nil || used[n] }
	var b strings.Builder
	b.WriteString(Prelude())
	if has("rnd") {
		b.WriteString(PreludeRnd())
	}
	if has("pfloat") || has("pfloat_ok") {
		b.WriteString(PreludeParseFloat())
	}
	b.WriteString(`(define-fun godiv ((a Int) (b Int)) Int (ite (>= a 0) (ite (> b 0) (div a b) (- (div a (- b)))) (ite (> b 0) (- (div (- a) b)) (div (- a) (- b)))))
(define-fun gomod ((a Int) (b Int)) Int (- a (* b (godiv a b))))
`)
	for _, d := range g.TE.dtDecls {
		b.WriteString(d + "\n")
	}
	// prefixes of literals: for a literal P used as the left operand of a concatenation and a literal L that does
	// not start with P, the fact Str_sub(L, 0, |P|) = "L[:|P|]" (a literal distinct from P) separates L from every
	// P ++ x (with Str_sub(P ++ x, 0, |P|) = P)
	var prefixFacts []string
	if used != nil && used["Str_cat"] {
		var texts []string
		texts = append(texts, r.Lines...)
		for _, o := range r.Obls {
			texts = append(texts, o.Goal)
		}
		for _, pd := range g.pureDefs {
			if used[pd.Name] {
				texts = append(texts, pd.Text)
			}
		}
		byName := map[string]string{}
		for s, n := range g.strLits {
			byName[n] = s
		}
		lefts := map[string]bool{}
		for _, t := range texts {
			for _, m := range catLeftLit.FindAllStringSubmatch(t, -1) {
				lefts[m[1]] = true
			}
		}
		var ps []string
		for n := range lefts {
			if s, ok := byName[n]; ok && s != "" {
				ps = append(ps, s)
			}
		}
		sort.Strings(ps)
		lits := append([]string(nil), g.strOrder...)
		for _, pfx := range ps {
			for _, l := range lits {
				if !used[g.strLits[l]] || len(l) < len(pfx) || strings.HasPrefix(l, pfx) {
					continue
				}
				cut := g.StrLit(l[:len(pfx)])
				used[cut] = true
				prefixFacts = append(prefixFacts, fmt.Sprintf("(assert (= (Str_sub %s 0 %d) %s))", g.strLits[l], len(pfx), cut))
			}
		}
	}
	if len(g.strOrder) > 0 {
		var names []string
		for _, s := range g.strOrder {
			n := g.strLits[s]
			if !has(n) {
				continue
			}
			names = append(names, n)
			fmt.Fprintf(&b, "(declare-const %s Str) ; %q\n(assert (= (Str_len %s) %d))\n(assert (= (Str_at %s 0) %d))\n", n, trunc40(s), n, len(s), n, s[0])
		}
		if len(names) > 0 {
			fmt.Fprintf(&b, "(assert (distinct str_empty %s))\n", strings.Join(names, " "))
		}
		// concatenation instances among the literals of the VC: "." ++ "png" = ".png"
		if has("Str_cat") {
			var usedLits []string
			for _, s := range g.strOrder {
				if has(g.strLits[s]) {
					usedLits = append(usedLits, s)
				}
			}
			for _, a := range usedLits {
				for _, c := range usedLits {
					if len(c) > len(a) && strings.HasPrefix(c, a) {
						if bn, ok := g.strLits[c[len(a):]]; ok && has(bn) {
							fmt.Fprintf(&b, "(assert (= (Str_cat %s %s) %s))\n", g.strLits[a], bn, g.strLits[c])
							// the same instance of associativity with an arbitrary tail: "word/" ++ ("media/" ++ x) = "word/media/" ++ x
							// (a part name built as prefix + relationship target; a theorem of concatenation, triggered only by the nested term)
							// Emitted for path prefixes only (both literals end in "/"): the prefix literals the header synthesises
							// ("h", "http:", ...) would otherwise each bring an instance that only feeds the matcher.
							if strings.HasSuffix(a, "/") && strings.HasSuffix(c, "/") {
								fmt.Fprintf(&b, "(assert (forall ((x Str)) (! (= (Str_cat %s (Str_cat %s x)) (Str_cat %s x)) :pattern ((Str_cat %s (Str_cat %s x))))))\n", g.strLits[a], bn, g.strLits[c], g.strLits[a], bn)
							}
						}
					}
				}
			}
		}
		for _, a := range prefixFacts {
			b.WriteString(a + "\n")
		}
		// integer-looking literals: connect to itoa
		for _, s := range g.strOrder {
			if isDecimal(s) && has(g.strLits[s]) {
				fmt.Fprintf(&b, "(assert (= %s (itoa %s)))\n", g.strLits[s], s)
			}
		}
	}
	for _, n := range g.ufOrder {
		if has(n) {
			b.WriteString(g.ufDecl[n] + "\n")
		}
	}
	if facts := g.prefixDLiteralFacts(has); len(facts) > 0 {
		for _, a := range facts {
			b.WriteString(a + "\n")
		}
		if r != nil {
			const note = "fmt.Sprintf(\"<prefix>%d\", k) equals the string literal \"<prefix>k\" for the literals a VC mentions (instances, k a canonical non-negative decimal)"
			dup := false
			for _, a := range r.Assumed {
				dup = dup || a == note
			}
			if !dup {
				r.Assumed = append(r.Assumed, note)
			}
		}
	}
	g.noteEpoch(0)
	var eps []int
	for e := range g.epochs {
		eps = append(eps, e)
	}
	sort.Ints(eps)
	for _, e := range eps {
		fmt.Fprintf(&b, "(declare-const wfnext@%d Int)\n", e)
	}
	for _, hk := range g.heapRefOrder {
		p := strings.SplitN(hk, "\x00", 2)
		if !has(p[0]) {
			continue
		}
		fmt.Fprintf(&b, "(declare-const %s %s)\n", p[0], g.TE.heapSort[p[1]])
		if g.WFAxioms || (g.WFEntry && strings.HasSuffix(p[0], "@0")) || (r != nil && r.wf != nil && r.wf(p[1])) {
			ep := p[0][strings.LastIndex(p[0], "@")+1:]
			if ax := wfHeapAxiom(p[0], g.TE.heapSort[p[1]], "wfnext@"+ep); ax != "" {
				b.WriteString(ax + "\n")
			}
		}
	}
	for _, pd := range g.pureDecls {
		if has(pd.Name) {
			b.WriteString(pd.Text + "\n")
		}
	}
	for _, pd := range g.pureDefs {
		if has(pd.Name) {
			b.WriteString(pd.Text + "\n")
		}
	}
	for i, a := range g.axioms {
		if used == nil || used[fmt.Sprintf("\x00ax:%d", i)] {
			b.WriteString(a + "\n")
		}
	}
	return b.String()
}

var catLeftLit = regexp.MustCompile(`\(Str_cat (lit\d+) `)

func isDecimal(s string) bool {
	if s == "" || len(s) > 9 {
		return false
	}
	for i, r := range s {
		if r < '0' || r > '9' {
			return false
		}
		if i == 0 && r == '0' && len(s) > 1 {
			return false
		}
	}
	return true
}

func trunc40(s string) string {
	s = strings.ReplaceAll(s, "\n", "\\n")
	if len(s) > 40 {
		return s[:40] + "..."
	}
	return s
}

// ObligationSMT renders the SMT-LIB text of one obligation.
func (g *Gen) ObligationSMT(header string, r *FnResult, o *Obligation) string {
	var b strings.Builder
	if r.header == "" {
		r.header = g.HeaderFor(r)
	}
	b.WriteString(r.header)
	fmt.Fprintf(&b, "; ---- function %s, obligation %s (%s) at %s\n; %s\n", r.Key, o.Name, o.Kind, o.Pos, o.Desc)
	for _, l := range r.Lines[:o.PrefixLen] {
		b.WriteString(l + "\n")
	}
	fmt.Fprintf(&b, "(assert %s)\n(assert (not %s))\n(check-sat)\n", o.Reach, o.Goal)
	return b.String()
}

var _ = types.Typ


// mentionsIdent: the spec expression mentions the identifier name.
func mentionsIdent(e SExpr, name string) bool {
	found := false
	var walk func(e SExpr)
	walk = func(e SExpr) {
		switch e := e.(type) {
		case SIdent:
			if e.Name == name {
				found = true
			}
		case SUnary:
			walk(e.X)
		case SBinary:
			walk(e.X)
			walk(e.Y)
		case SSelect:
			walk(e.X)
		case SIndex:
			walk(e.X)
			walk(e.I)
		case SSliceE:
			walk(e.X)
			if e.Lo != nil {
				walk(e.Lo)
			}
			if e.Hi != nil {
				walk(e.Hi)
			}
		case SCall:
			for _, a := range e.Args {
				walk(a)
			}
		case STypeAssert:
			walk(e.X)
		case SQuant:
			walk(e.Body)
		}
	}
	walk(e)
	return found
}
