package vc

import (
	"fmt"
	"go/ast"
	"go/constant"
	"go/token"
	"go/types"
	"strings"

	"golang.org/x/tools/go/ssa"
)

type namedVal struct {
	name   string
	v      Val
	isAddr bool
	elem   types.Type
	block  *ssa.BasicBlock
	seq    int
}

var namedStore = map[*frame][]namedVal{}

func (f *frame) recordName(name string, v Val, isAddr bool, elem types.Type, b *ssa.BasicBlock) {
	if name == "" || name == "_" {
		return
	}
	namedStore[f] = append(namedStore[f], namedVal{name, v, isAddr, elem, b, len(namedStore[f])})
}

func domDepth(b *ssa.BasicBlock) int {
	d := 0
	for x := b.Idom(); x != nil; x = x.Idom() {
		d++
	}
	return d
}

// lookupName resolves a source-level local name at block `at`.
func (f *frame) lookupName(name string, at *ssa.BasicBlock, st *State) (SV, bool) {
	best := -1
	var bv namedVal
	// a variable that lives in memory (address-taken local) is always read from its cell: a value
	// recorded at its declaration would be stale after a write through the address
	hasAddr := false
	for _, nv := range namedStore[f] {
		if nv.name == name && nv.isAddr && (nv.block == at || nv.block.Dominates(at)) {
			hasAddr = true
		}
	}
	for _, nv := range namedStore[f] {
		if nv.name != name {
			continue
		}
		if hasAddr && !nv.isAddr {
			continue
		}
		if nv.block != at && !nv.block.Dominates(at) {
			continue
		}
		score := domDepth(nv.block)*100000 + nv.seq
		if score > best {
			best = score
			bv = nv
		}
	}
	if best < 0 {
		return SV{}, false
	}
	if bv.isAddr {
		t := f.load(bv.v, bv.elem, st)
		if isStruct(bv.elem) {
			if bv.v.T == "" {
				return SV{}, false
			}
			return SV{Typ: bv.elem, Loc: &LV{Root: bv.elem, Path: "", Base: bv.v.T, View: st}}, true
		}
		return SV{Term: t, Typ: bv.elem}, true
	}
	return f.toSV(bv.v, st), true
}

func (f *frame) toSV(v Val, st *State) SV {
	return SV{Term: v.T, Typ: v.Typ}
}

// specEnv builds the evaluation environment for contract clauses of this frame.
func (f *frame) specEnv(st *State, at *ssa.BasicBlock, overrides map[string]SV) *SpecEnv {
	env := &SpecEnv{G: f.c.g, Pkg: f.fn.Pkg.Pkg, Vars: map[string]SV{}, Cur: st, Old: f.entry, Next0: f.entry.next, FnScope: fnScope(f.fn)}
	for i, p := range f.fn.Params {
		env.Vars[p.Name()] = f.toSV(f.params[i], st)
	}
	if f.fn == f.c.top {
		f.bindFreeVars(env, st)
	}
	// named locals visible at `at`
	if at != nil {
		seen := map[string]bool{}
		for _, nv := range namedStore[f] {
			if seen[nv.name] {
				continue
			}
			if _, isParam := env.Vars[nv.name]; isParam {
				continue
			}
			seen[nv.name] = true
			func() {
				defer func() {
					if r := recover(); r != nil {
						if _, ok := r.(ErrSubset); !ok {
							panic(r)
						}
					}
				}() // a local the model cannot represent is simply not nameable in clauses
				if sv, ok := f.lookupName(nv.name, at, st); ok {
					env.Vars[nv.name] = sv
				}
			}()
		}
	}
	// iterBound(n): the allocation counter at the head of loop n in the iteration being executed (a plain integer: what
	// the iteration allocates lies at or above it, everything older below; usable in rebind expressions and in the
	// invariants of the loops nested in loop n)
	for _, li := range f.loops {
		if li.entryState != nil {
			if env.LoopEntry == nil {
				env.LoopEntry = map[string]HeapView{}
			}
			env.LoopEntry[fmt.Sprint(li.ordinal)] = li.entryState
		}
		if li.iterNext != "" {
			env.Vars[fmt.Sprintf("#iterbound%d", li.ordinal)] = SV{Term: li.iterNext, Typ: types.Typ[types.Int]}
		}
	}
	for k, v := range overrides {
		env.Vars[k] = v
	}
	return env
}

// bindFreeVars makes the captured variables of a function literal nameable in its contract: the name denotes
// the variable's content in state st (for a variable the literal never assigns, that is also its entry value).
// Variables of struct or array type are not nameable (they would need a location, not a value).
func (f *frame) bindFreeVars(env *SpecEnv, st *State) {
	for fv, v := range f.c.freeVals {
		pt, ok := fv.Type().Underlying().(*types.Pointer)
		if !ok || isStruct(pt.Elem()) {
			continue
		}
		if _, isArr := pt.Elem().Underlying().(*types.Array); isArr {
			continue
		}
		if _, shadow := env.Vars[fv.Name()]; shadow {
			continue
		}
		env.Vars[fv.Name()] = SV{Term: f.load(v, pt.Elem(), st), Typ: pt.Elem()}
	}
}

// closurePreconditions: a function literal under contract is called by code the verifier does not see (a library
// function it is handed to), so its preconditions are established where it is created: every requires clause may
// mention captured variables only (not the literal's parameters, which the unknown caller chooses) and must hold
// for their values at creation; and a captured variable is not assigned after the literal was created (every
// store to its cell in the creating function comes before), so that the clause still holds when the literal runs.
func (f *frame) closurePreconditions(mc *ssa.MakeClosure, st *State, b *ssa.BasicBlock) {
	lit := mc.Fn.(*ssa.Function)
	con := f.c.g.ContractOf(lit)
	if con == nil || len(con.Requires) == 0 {
		return
	}
	c := f.c
	env := &SpecEnv{G: c.g, Pkg: lit.Pkg.Pkg, Vars: map[string]SV{}, Cur: st, Old: st, Next0: st.next, FnScope: fnScope(f.fn)}
	stable := true
	for i, fv := range lit.FreeVars {
		bind := mc.Bindings[i]
		pt, ok := fv.Type().Underlying().(*types.Pointer)
		if !ok || isStruct(pt.Elem()) {
			continue
		}
		if _, isArr := pt.Elem().Underlying().(*types.Array); isArr {
			continue
		}
		env.Vars[fv.Name()] = SV{Term: f.load(f.val(bind), pt.Elem(), st), Typ: pt.Elem()}
		if al, ok := bind.(*ssa.Alloc); ok {
			for _, r := range *al.Referrers() {
				s, isStore := r.(*ssa.Store)
				if !isStore || s.Addr != al {
					continue
				}
				if s.Block() == b {
					before := false
					for _, x := range b.Instrs {
						if x == ssa.Instruction(s) {
							before = true
						}
						if x == ssa.Instruction(mc) {
							break
						}
					}
					if !before {
						stable = false
					}
				} else if !s.Block().Dominates(b) || b.Dominates(s.Block()) {
					stable = false
				}
			}
		}
	}
	name := strings.TrimPrefix(FuncKey(lit), FuncKey(f.fn))
	for i, rq := range con.Requires {
		for _, p := range lit.Params {
			if mentionsIdent(rq.Expr, p.Name()) {
				subsetf("requires clause of function literal %s mentions its parameter %s (only captured variables may be constrained)", FuncKey(lit), p.Name())
			}
		}
		c.oblige(st, f.path, fmt.Sprintf("pre@literal%s#%d", name, i+1), env.Eval(rq.Expr).Term, "precondition of the function literal "+FuncKey(lit)+" holds where it is created: "+rq.Text, mc.Pos())
	}
	goal := "(= 0 0)" // not the literal "true": the obligation must exist (and be in the baseline) when it holds
	if !stable {
		goal = "false"
	}
	c.oblige(st, f.path, "pre@literal"+name+"#stable", goal, "captured variables of "+FuncKey(lit)+" are not assigned after the literal was created", mc.Pos())
}

func (f *frame) evalClause(cl Clause, env *SpecEnv) string {
	v := env.Eval(cl.Expr)
	return v.Term
}

// tryEvalClause evaluates a loop clause; a clause that cannot be evaluated at this loop (it names a local the
// function no longer has, ...) does not take the whole function out of the subset: the clause is simply not
// available as an assumption and its obligations fail (goal "false"), so a restructured loop is judged, not skipped.
func (f *frame) tryEvalClause(cl Clause, env *SpecEnv) (term string, ok bool) {
	defer func() {
		if r := recover(); r != nil {
			if e, isSub := r.(ErrSubset); isSub {
				f.c.warnings = append(f.c.warnings, fmt.Sprintf("%s: loop clause cannot be evaluated (%s): %s", f.path, e.Msg, cl.Text))
				term, ok = "false", false
				return
			}
			panic(r)
		}
	}()
	return f.evalClause(cl, env), true
}

// headerPhiOverrides maps loop variable names to values for evaluating invariants.
// pick selects the value for each header phi.
func (f *frame) headerPhiOverrides(li *loopInfo, pick func(phi *ssa.Phi) (Val, bool)) map[string]SV {
	ov := map[string]SV{}
	if li.entryNext != "" {
		ov["#loopbound"] = SV{Term: li.entryNext, Typ: types.Typ[types.Int]}
	}
	for _, instr := range li.header.Instrs {
		phi, ok := instr.(*ssa.Phi)
		if !ok {
			break
		}
		v, ok := pick(phi)
		if !ok {
			continue
		}
		if phi.Comment == "rangeindex" || (phi.Comment == "" && strings.HasPrefix(li.header.Comment, "rangeindex")) {
			// #i = number of completed iterations = index of the next element
			ov["#i"] = SV{Term: fmt.Sprintf("(+ %s 1)", v.T), Typ: phi.Type()}
			// rangeLen(): the length go/ssa took of the ranged slice before the loop (idx+1 < len is the loop test); a value
			// computed in the preheader, hence fixed for the whole loop
			for _, hi := range li.header.Instrs {
				cmp, ok := hi.(*ssa.BinOp)
				if !ok || cmp.Op != token.LSS {
					continue
				}
				if add, ok := cmp.X.(*ssa.BinOp); ok && add.Op == token.ADD && add.X == ssa.Value(phi) {
					if lv, ok := f.vals[cmp.Y]; ok && lv.T != "" {
						ov["#rangelen"] = SV{Term: lv.T, Typ: phi.Type()}
					}
				}
			}
		} else if phi.Comment != "" {
			ov[phi.Comment] = SV{Term: v.T, Typ: phi.Type()}
		}
	}
	return ov
}

// seenOverride binds #seen for a loop whose header consumes a range-over-map iterator.
func (f *frame) seenOverride(li *loopInfo, st *State, ov map[string]SV) {
	for b := range li.blocks {
		for _, instr := range b.Instrs {
			if nx, ok := instr.(*ssa.Next); ok && !nx.IsString {
				if rng, ok := nx.Iter.(*ssa.Range); ok {
					if h := f.c.g.seenHeap(rng); h != "" && nx.Block() == li.header {
						ov["#seen"] = SV{Term: st.Heap(h), Typ: types.Typ[types.Bool]}
						n, key, pos := f.c.g.seenSeqHeaps(rng)
						kt := rng.X.Type().Underlying().(*types.Map).Key()
						ov["#seenN"] = SV{Term: st.Heap(n), Typ: types.Typ[types.Int]}
						ov["#seenKey"] = SV{Term: st.Heap(key), Typ: kt}
						ov["#seenPos"] = SV{Term: st.Heap(pos), Typ: kt}
					}
				}
			}
		}
	}
}

func (f *frame) enterLoop(li *loopInfo, in *State) *State {
	c := f.c
	b := li.header
	// entry values of header phis
	entryVals := map[*ssa.Phi]Val{}
	for _, instr := range b.Instrs {
		phi, ok := instr.(*ssa.Phi)
		if !ok {
			break
		}
		type inc struct {
			reach string
			v     Val
		}
		var incs []inc
		for i, p := range b.Preds {
			if b.Dominates(p) {
				continue
			}
			es, ok := f.edge[[2]int{p.Index, b.Index}]
			if !ok {
				continue
			}
			incs = append(incs, inc{es.reach, f.val(phi.Edges[i])})
		}
		if len(incs) == 0 {
			continue
		}
		t := incs[len(incs)-1].v.T
		for i := len(incs) - 2; i >= 0; i-- {
			t = fmt.Sprintf("(ite %s %s %s)", incs[i].reach, incs[i].v.T, t)
		}
		entryVals[phi] = Val{T: t, Typ: phi.Type()}
	}
	lp := fmt.Sprintf("%s:loop%d", f.path, li.ordinal)
	li.entryNext = in.next
	li.preState = in.clone()
	li.entryState = in.clone()
	if li.spec != nil {
		ov := f.headerPhiOverrides(li, func(phi *ssa.Phi) (Val, bool) { v, ok := entryVals[phi]; return v, ok })
		f.seenOverride(li, in, ov)
		env := f.specEnv(in, b, ov)
		env.LoopPre = li.preState
		for i, inv := range li.spec.Invariants {
			goal, _ := f.tryEvalClause(inv, env)
			c.oblige(in, lp, fmt.Sprintf("inv-entry%d", i+1), goal, inv.Text, firstPos(b))
		}
	} else {
		c.warnings = append(c.warnings, fmt.Sprintf("%s: loop %d has no invariant (havocked)", f.path, li.ordinal))
	}
	// havoc
	hs := in.clone()
	ws := c.g.loopWrites(f.fn, li)
	if ws.Top {
		f.havocAll(hs)
	} else {
		f.havocHeaps(hs, ws.Sorted())
	}
	f.havocNext(hs)
	li.iterNext = hs.next
	hs.tagLo = hs.next // ids handed out by earlier iterations: covered by the loop invariants, not by the bookkeeping
	li.hdrVals = map[ssa.Value]Val{}
	for _, instr := range b.Instrs {
		phi, ok := instr.(*ssa.Phi)
		if !ok {
			break
		}
		n := c.declare(valName(phi), c.g.TE.SortOf(phi.Type()))
		v := f.mkVal(n, phi.Type())
		f.vals[phi] = v
		li.hdrVals[phi] = v
		c.assume(hs, c.wellFormed(n, phi.Type(), hs.next))
		if phi.Comment == "rangeindex" && isRangeIndexPhi(phi) {
			// go/ssa lowers "for i := range s" to idx = phi(-1, idx+1): idx >= -1 at every visit of the header
			c.assume(hs, fmt.Sprintf("(>= %s (- 1))", n))
		}
		if phi.Comment != "" {
			f.recordName(phi.Comment, v, false, nil, b)
		}
	}
	if li.spec != nil {
		ov := f.headerPhiOverrides(li, func(phi *ssa.Phi) (Val, bool) { v, ok := li.hdrVals[phi]; return v, ok })
		f.seenOverride(li, hs, ov)
		env := f.specEnv(hs, b, ov)
		env.LoopPre = li.preState
		for _, inv := range li.spec.Invariants {
			if t, ok := f.tryEvalClause(inv, env); ok {
				c.assume(hs, t)
			}
		}
		if li.spec.Decreases != nil {
			if t, ok := f.tryEvalClause(*li.spec.Decreases, env); ok {
				li.measure0 = c.define("measure", SInt, t)
			}
		}
		if clausesMentionDeepcopy(li.spec.Invariants) {
			c.recordSnap(hs)
		}
	}
	li.hdrState = hs.clone()
	return hs
}

func (f *frame) backEdge(li *loopInfo, from *ssa.BasicBlock, es *State) {
	c := f.c
	if li.spec == nil {
		return
	}
	idx := -1
	for i, p := range li.header.Preds {
		if p == from {
			idx = i
		}
	}
	ov := f.headerPhiOverrides(li, func(phi *ssa.Phi) (Val, bool) { return f.val(phi.Edges[idx]), true })
	f.seenOverride(li, es, ov)
	env := f.specEnv(es, from, ov)
	env.LoopPre = li.preState
	lp := fmt.Sprintf("%s:loop%d", f.path, li.ordinal)
	for i, inv := range li.spec.Invariants {
		goal, _ := f.tryEvalClause(inv, env)
		c.oblige(es, lp, fmt.Sprintf("inv-step%d", i+1), goal, inv.Text, firstPos(li.header))
	}
	if li.spec.Decreases != nil {
		if m, ok := f.tryEvalClause(*li.spec.Decreases, env); ok && li.measure0 != "" {
			c.oblige(es, lp, "decreases", fmt.Sprintf("(and (>= %s 0) (< %s %s))", li.measure0, m, li.measure0), li.spec.Decreases.Text, firstPos(li.header))
		} else {
			c.oblige(es, lp, "decreases", "false", li.spec.Decreases.Text, firstPos(li.header))
		}
	}
}

// isRangeIndexPhi checks the shape go/ssa gives the hidden index of a range loop: phi(-1, phi+1).
func isRangeIndexPhi(phi *ssa.Phi) bool {
	okInit, okStep := false, false
	for _, e := range phi.Edges {
		if k, ok := e.(*ssa.Const); ok && k.Value != nil && k.Value.ExactString() == "-1" {
			okInit = true
			continue
		}
		if b, ok := e.(*ssa.BinOp); ok && b.Op == token.ADD && b.X == ssa.Value(phi) {
			if k, ok := b.Y.(*ssa.Const); ok && k.Value != nil && k.Value.ExactString() == "1" {
				okStep = true
				continue
			}
		}
		return false // some other incoming value: not the shape we rely on
	}
	return okInit && okStep
}

func firstPos(b *ssa.BasicBlock) token.Pos {
	for _, in := range b.Instrs {
		if in.Pos().IsValid() {
			return in.Pos()
		}
	}
	return token.NoPos
}

func (f *frame) execBlock(b *ssa.BasicBlock, st *State) {
	for _, instr := range b.Instrs {
		if _, ok := instr.(*ssa.Phi); ok {
			if v, ok := instr.(*ssa.Phi); ok && v.Comment != "" {
				if val, ok := f.vals[v]; ok {
					f.recordName(v.Comment, val, false, nil, b)
				}
			}
			continue
		}
		f.execInstr(b, instr, st)
	}
}

func (f *frame) setEdge(from, to *ssa.BasicBlock, es *State) {
	if to.Dominates(from) {
		if li := f.loopOf[to]; li != nil {
			f.backEdge(li, from, es)
		}
		return
	}
	f.edge[[2]int{from.Index, to.Index}] = es
}

func (f *frame) setVal(v ssa.Value, val Val) {
	if val.Typ == nil {
		val.Typ = v.Type()
	}
	f.vals[v] = val
}

// def defines an SSA value as a term.
func (f *frame) def(v ssa.Value, term string, st *State) {
	t := v.Type()
	name := f.c.define(valName(v), f.c.g.TE.SortOf(t), term)
	f.setVal(v, f.mkVal(name, t))
}

func (f *frame) execInstr(b *ssa.BasicBlock, instr ssa.Instruction, st *State) {
	c := f.c
	g := c.g
	switch in := instr.(type) {
	case *ssa.DebugRef:
		if id, ok := in.Expr.(*ast.Ident); ok {
			if ov, isVar := in.Object().(*types.Var); isVar && !ov.IsField() { // go/ssa also emits a DebugRef for the Sel of x.f: a field is not a local
				defer func() { recover() }() // names are best effort
				v := f.val(in.X)
				if in.IsAddr {
					pt, ok := in.X.Type().Underlying().(*types.Pointer)
					if ok {
						f.recordName(id.Name, v, true, pt.Elem(), b)
					}
				} else {
					f.recordName(id.Name, v, false, nil, b)
				}
			}
		}
	case *ssa.Alloc:
		pt := in.Type().Underlying().(*types.Pointer)
		et := pt.Elem()
		id := f.allocID(st)
		ref := fmt.Sprintf("(obj %s)", id)
		if at, ok := et.Underlying().(*types.Array); ok {
			f.zeroInitArr(st, id, at.Elem(), fmt.Sprint(at.Len()), int(at.Len()))
			f.setVal(in, Val{T: ref, Typ: in.Type()})
		} else {
			f.zeroInitObj(st, ref, et)
			f.tagAllocKind(st, id, et, false)
			if isStringsBuilder(et) {
				c.assume(st, fmt.Sprintf("(= (select %s %s) str_empty)", st.Heap(sbHeap(g)), ref))
			} else if isStruct(et) {
				// builder fields of a new object are empty too (their ghost content lives at the interior key)
				for _, p := range builderFieldPaths(et, "", 0) {
					c.assume(st, fmt.Sprintf("(= (select %s %s) str_empty)", st.Heap(sbHeap(g)), interiorKey(ref, p)))
				}
			}
			f.setVal(in, f.mkVal(ref, in.Type()))
		}
		if in.Comment != "" && in.Comment != "complit" && in.Comment != "varargs" && in.Comment != "slicelit" && in.Comment != "makeslice" && in.Comment != "new" {
			f.recordName(in.Comment, f.vals[in], true, et, b)
		}
	case *ssa.Store:
		pt := in.Addr.Type().Underlying().(*types.Pointer)
		p := f.val(in.Addr)
		f.nilCheck(st, p, in.Pos(), "store")
		f.store(p, pt.Elem(), f.val(in.Val).T, st)
	case *ssa.UnOp:
		f.execUnOp(in, st)
	case *ssa.BinOp:
		f.execBinOp(in, st)
	case *ssa.FieldAddr:
		x := f.val(in.X)
		f.nilCheck(st, x, in.Pos(), "field")
		pst := in.X.Type().Underlying().(*types.Pointer).Elem()
		fld := pst.Underlying().(*types.Struct).Field(in.Field)
		var lv *LV
		if x.LV != nil && !strings.HasPrefix(x.LV.Path, "G:") {
			lv = &LV{Root: x.LV.Root, Path: joinPath(x.LV.Path, fld.Name()), Base: x.LV.Base}
		} else if x.T != "" {
			lv = &LV{Root: pst, Path: fld.Name(), Base: x.T}
		} else {
			subsetf("FieldAddr on unmodelled pointer")
		}
		f.setVal(in, Val{T: "", LV: lv, Typ: in.Type()})
	case *ssa.Field:
		x := f.val(in.X)
		sname := g.TE.SortOf(in.X.Type())
		fld := in.X.Type().Underlying().(*types.Struct).Field(in.Field)
		f.def(in, fmt.Sprintf("(%s_%s %s)", sname, fld.Name(), x.T), st)
	case *ssa.IndexAddr:
		x := f.val(in.X)
		idx := f.val(in.Index).T
		switch xt := in.X.Type().Underlying().(type) {
		case *types.Slice:
			c.oblige(st, f.path, "safety:index", fmt.Sprintf("(and (<= 0 %s) (< %s (slen %s)))", idx, idx, x.T), "index in range", in.Pos())
			ref := c.define("ea", SRef, fmt.Sprintf("(selem %s %s)", x.T, idx))
			f.setVal(in, f.mkVal(ref, in.Type()))
		case *types.Pointer:
			at := xt.Elem().Underlying().(*types.Array)
			f.nilCheck(st, x, in.Pos(), "index")
			c.oblige(st, f.path, "safety:index", fmt.Sprintf("(and (<= 0 %s) (< %s %d))", idx, idx, at.Len()), "array index in range", in.Pos())
			ref := c.define("ea", SRef, fmt.Sprintf("(elem (oid %s) %s)", x.T, idx))
			f.setVal(in, f.mkVal(ref, in.Type()))
		default:
			subsetf("IndexAddr on %s", in.X.Type())
		}
	case *ssa.Index:
		x := f.val(in.X)
		idx := f.val(in.Index).T
		if isString(in.X.Type()) {
			c.oblige(st, f.path, "safety:index", fmt.Sprintf("(and (<= 0 %s) (< %s (Str_len %s)))", idx, idx, x.T), "string index in range", in.Pos())
			f.def(in, fmt.Sprintf("(Str_at %s %s)", x.T, idx), st)
		} else if at, ok := in.X.Type().Underlying().(*types.Array); ok && strings.HasPrefix(g.TE.SortOf(in.X.Type()), "(Array Int ") {
			c.oblige(st, f.path, "safety:index", fmt.Sprintf("(and (<= 0 %s) (< %s %d))", idx, idx, at.Len()), "array index in range", in.Pos())
			f.def(in, fmt.Sprintf("(select %s %s)", x.T, idx), st)
		} else {
			subsetf("Index on %s", in.X.Type())
		}
	case *ssa.Slice:
		f.execSlice(in, st)
	case *ssa.MakeSlice:
		et := in.Type().Underlying().(*types.Slice).Elem()
		ln, cp := f.val(in.Len).T, f.val(in.Cap).T
		c.oblige(st, f.path, "safety:makeslice", fmt.Sprintf("(and (<= 0 %s) (<= %s %s))", ln, ln, cp), "make: 0 <= len <= cap", in.Pos())
		id := f.allocID(st)
		f.zeroInitArr(st, id, et, cp, -1)
		f.def(in, fmt.Sprintf("(mkslice %s 0 %s %s)", id, ln, cp), st)
	case *ssa.MakeMap:
		id := f.allocID(st)
		f.tagAllocKind(st, id, in.Type(), false)
		ref := fmt.Sprintf("(obj %s)", id)
		dom, _, ks, _ := g.TE.MapHeaps(in.Type())
		c.assume(st, fmt.Sprintf("(= (select %s %s) ((as const (Array %s Bool)) false))", st.Heap(dom), ref, ks))
		f.setVal(in, Val{T: ref, Typ: in.Type()})
	case *ssa.MapUpdate:
		m := f.val(in.Map)
		c.oblige(st, f.path, "safety:nilmap", fmt.Sprintf("(not (= %s nil))", m.T), "assignment to entry in nil map", in.Pos())
		dom, val, mks, _ := g.TE.MapHeaps(in.Map.Type())
		k, v := f.val(in.Key).T, f.val(in.Value).T
		c.cardStep(st, mks, fmt.Sprintf("(select %s %s)", st.Heap(dom), m.T), k, true)
		f.storeHeap(st, dom, m.T, fmt.Sprintf("(store (select %s %s) %s true)", st.Heap(dom), m.T, k))
		f.storeHeap(st, val, m.T, fmt.Sprintf("(store (select %s %s) %s %s)", st.Heap(val), m.T, k, v))
	case *ssa.Lookup:
		x := f.val(in.X)
		k := f.val(in.Index).T
		if mt, ok := in.X.Type().Underlying().(*types.Map); ok {
			dom, val, _, _ := g.TE.MapHeaps(in.X.Type())
			present := fmt.Sprintf("(and (not (= %s nil)) (select (select %s %s) %s))", x.T, st.Heap(dom), x.T, k)
			v := fmt.Sprintf("(ite %s (select (select %s %s) %s) %s)", present, st.Heap(val), x.T, k, g.TE.Zero(mt.Elem()))
			vn := c.define(valName(in), g.TE.SortOf(mt.Elem()), v)
			c.assume(st, c.wellFormed(vn, mt.Elem(), st.next))
			if in.CommaOk {
				okn := c.define(valName(in)+"_ok", SBool, present)
				f.setVal(in, Val{Tuple: []Val{f.mkVal(vn, mt.Elem()), {T: okn, Typ: types.Typ[types.Bool]}}, Typ: in.Type()})
			} else {
				f.setVal(in, f.mkVal(vn, mt.Elem()))
			}
		} else if isString(in.X.Type()) {
			c.oblige(st, f.path, "safety:index", fmt.Sprintf("(and (<= 0 %s) (< %s (Str_len %s)))", k, k, x.T), "string index in range", in.Pos())
			f.def(in, fmt.Sprintf("(Str_at %s %s)", x.T, k), st)
		} else {
			subsetf("Lookup on %s", in.X.Type())
		}
	case *ssa.Extract:
		t := f.val(in.Tuple)
		if in.Index >= len(t.Tuple) {
			subsetf("extract from non-tuple")
		}
		f.setVal(in, t.Tuple[in.Index])
	case *ssa.ChangeType:
		v := f.val(in.X)
		v.Typ = in.Type()
		if st2, ok := derefStruct(in.Type()); ok && v.T != "" {
			v.LV = &LV{Root: st2, Path: "", Base: v.T}
		}
		f.setVal(in, v)
	case *ssa.ChangeInterface:
		v := f.val(in.X)
		v.Typ = in.Type()
		f.setVal(in, v)
	case *ssa.Convert:
		f.execConvert(in, st)
	case *ssa.MakeInterface:
		x := f.val(in.X)
		if x.T == "" {
			subsetf("interior pointer boxed into interface")
		}
		f.def(in, g.makeIface(x.T, in.X.Type()), st)
	case *ssa.TypeAssert:
		f.execTypeAssert(in, st)
	case *ssa.MakeClosure:
		f.setVal(in, Val{T: "nil", Fn: in.Fn.(*ssa.Function), Typ: in.Type()})
		f.closurePreconditions(in, st, b)
	case *ssa.Call:
		f.execCall(in, in.Common(), in.Pos(), st, b)
	case *ssa.Defer:
		st.armed[in] = "true"
		// argument values are evaluated now (they are plain SSA values, already bound)
	case *ssa.RunDefers:
		f.runDefers(st, b)
	case *ssa.Range:
		f.execRange(in, st)
	case *ssa.Next:
		f.execNext(in, st)
	case *ssa.If:
		cond := f.val(in.Cond).T
		t := st.clone()
		t.reach = c.define("R", SBool, fmt.Sprintf("(and %s %s)", st.reach, cond))
		e := st.clone()
		e.reach = c.define("R", SBool, fmt.Sprintf("(and %s (not %s))", st.reach, cond))
		f.setEdge(b, b.Succs[0], t)
		f.setEdge(b, b.Succs[1], e)
	case *ssa.Jump:
		f.setEdge(b, b.Succs[0], st.clone())
	case *ssa.Return:
		var vals []Val
		for _, r := range in.Results {
			vals = append(vals, f.val(r))
		}
		f.rets = append(f.rets, retRec{vals: vals, st: st.clone(), pos: in.Pos()})
	case *ssa.Panic:
		c.oblige(st, f.path, "safety:panic", "false", "explicit panic unreachable", in.Pos())
	case *ssa.Go, *ssa.Send, *ssa.Select:
		subsetf("concurrency instruction %T in %s", instr, f.fn)
	default:
		subsetf("instruction %T not modelled (%s)", instr, instr)
	}
}

func (f *frame) nilCheck(st *State, p Val, pos token.Pos, what string) {
	if p.LV != nil && strings.HasPrefix(p.LV.Path, "G:") {
		return
	}
	if p.LV != nil && p.LV.Path != "" {
		return // interior pointer derived from an already checked base
	}
	if p.T == "" {
		return
	}
	if strings.HasPrefix(p.T, "(obj ") || strings.HasPrefix(p.T, "ea!") || strings.HasPrefix(p.T, "(selem ") || strings.HasPrefix(p.T, "(elem ") {
		return
	}
	f.c.oblige(st, f.path, "safety:nil", fmt.Sprintf("(not (= %s nil))", p.T), "nil dereference ("+what+")", pos)
}

func (f *frame) execUnOp(in *ssa.UnOp, st *State) {
	c := f.c
	x := f.val(in.X)
	switch in.Op {
	case token.MUL:
		pt := in.X.Type().Underlying().(*types.Pointer)
		f.nilCheck(st, x, in.Pos(), "load")
		t := f.load(x, pt.Elem(), st)
		name := c.define(valName(in), c.g.TE.SortOf(pt.Elem()), t)
		c.assume(st, c.wellFormed(name, pt.Elem(), st.next))
		f.setVal(in, f.mkVal(name, in.Type()))
	case token.NOT:
		f.def(in, "(not "+x.T+")", st)
	case token.SUB:
		f.def(in, "(- "+x.T+")", st)
	case token.XOR:
		f.def(in, fmt.Sprintf("(%s %s)", c.g.UF("bitnot", []string{SInt}, SInt), x.T), st)
	default:
		subsetf("unary op %s", in.Op)
	}
}

func (f *frame) execBinOp(in *ssa.BinOp, st *State) {
	c := f.c
	g := c.g
	x, y := f.val(in.X), f.val(in.Y)
	xt := in.X.Type()
	switch in.Op {
	case token.EQL, token.NEQ:
		var t string
		switch {
		case isIface(xt) && isIface(in.Y.Type()):
			t = fmt.Sprintf("(= %s %s)", x.T, y.T)
		case isIface(xt):
			t = fmt.Sprintf("(= %s %s)", x.T, g.makeIface(y.T, in.Y.Type()))
		case isIface(in.Y.Type()):
			t = fmt.Sprintf("(= %s %s)", g.makeIface(x.T, xt), y.T)
		case isSliceT(xt):
			// only comparison with nil is legal
			other := x
			if k, ok := in.X.(*ssa.Const); ok && k.Value == nil {
				other = y
			}
			t = fmt.Sprintf("(= (sarr %s) 0)", other.T)
		default:
			if x.T == "" || y.T == "" {
				subsetf("comparison of interior pointers")
			}
			t = fmt.Sprintf("(= %s %s)", x.T, y.T)
		}
		if in.Op == token.NEQ {
			t = "(not " + t + ")"
		}
		f.def(in, t, st)
	case token.LSS, token.LEQ, token.GTR, token.GEQ:
		op := map[token.Token]string{token.LSS: "<", token.LEQ: "<=", token.GTR: ">", token.GEQ: ">="}[in.Op]
		if isString(xt) {
			switch in.Op {
			case token.LSS:
				f.def(in, fmt.Sprintf("(Str_lt %s %s)", x.T, y.T), st)
			case token.GTR:
				f.def(in, fmt.Sprintf("(Str_lt %s %s)", y.T, x.T), st)
			case token.LEQ:
				f.def(in, fmt.Sprintf("(not (Str_lt %s %s))", y.T, x.T), st)
			case token.GEQ:
				f.def(in, fmt.Sprintf("(not (Str_lt %s %s))", x.T, y.T), st)
			}
			return
		}
		f.def(in, fmt.Sprintf("(%s %s %s)", op, x.T, y.T), st)
	case token.ADD:
		if isString(xt) {
			f.def(in, fmt.Sprintf("(Str_cat %s %s)", x.T, y.T), st)
			return
		}
		f.def(in, fmt.Sprintf("(+ %s %s)", x.T, y.T), st)
	case token.SUB:
		f.def(in, fmt.Sprintf("(- %s %s)", x.T, y.T), st)
	case token.MUL:
		f.def(in, fmt.Sprintf("(* %s %s)", x.T, y.T), st)
	case token.QUO:
		if isReal(xt) {
			// float64 is modelled as exact reals without Inf/NaN: x/0 (Inf or NaN in Go, an unspecified value in
			// SMT-LIB) leaves the model, so a division whose divisor is not a non-zero constant must be shown
			// not to divide by zero.
			if k, ok := in.Y.(*ssa.Const); !ok || k.Value == nil || constant.Sign(k.Value) == 0 {
				c.oblige(st, f.path, "safety:div0", fmt.Sprintf("(not (= %s 0.0))", y.T), "float64 division by zero (Inf/NaN is outside the exact-real model)", in.Pos())
			}
			f.def(in, fmt.Sprintf("(/ %s %s)", x.T, y.T), st)
			return
		}
		c.oblige(st, f.path, "safety:div0", fmt.Sprintf("(not (= %s 0))", y.T), "integer division by zero", in.Pos())
		f.def(in, fmt.Sprintf("(godiv %s %s)", x.T, y.T), st)
	case token.REM:
		c.oblige(st, f.path, "safety:div0", fmt.Sprintf("(not (= %s 0))", y.T), "integer modulo by zero", in.Pos())
		f.def(in, fmt.Sprintf("(gomod %s %s)", x.T, y.T), st)
	case token.AND, token.OR, token.XOR, token.SHL, token.SHR, token.AND_NOT:
		if g.TE.SortOf(xt) == SBool {
			op := map[token.Token]string{token.AND: "and", token.OR: "or", token.XOR: "xor"}[in.Op]
			f.def(in, fmt.Sprintf("(%s %s %s)", op, x.T, y.T), st)
			return
		}
		uf := g.UF("bitop_"+sanitize(in.Op.String()), []string{SInt, SInt}, SInt)
		f.def(in, fmt.Sprintf("(%s %s %s)", uf, x.T, y.T), st)
	default:
		subsetf("binary op %s", in.Op)
	}
}

func (f *frame) execSlice(in *ssa.Slice, st *State) {
	c := f.c
	x := f.val(in.X)
	if in.Max != nil {
		subsetf("3-index slice")
	}
	lo := "0"
	if in.Low != nil {
		lo = f.val(in.Low).T
	}
	switch xt := in.X.Type().Underlying().(type) {
	case *types.Slice:
		hi := fmt.Sprintf("(slen %s)", x.T)
		if in.High != nil {
			hi = f.val(in.High).T
		}
		c.oblige(st, f.path, "safety:slice", fmt.Sprintf("(and (<= 0 %s) (<= %s %s) (<= %s (scap %s)))", lo, lo, hi, hi, x.T), "slice bounds in range", in.Pos())
		// s[lo:hi] of a nil slice stays nil (arr 0)
		f.def(in, fmt.Sprintf("(mkslice (sarr %s) (+ (soff %s) %s) (- %s %s) (- (scap %s) %s))", x.T, x.T, lo, hi, lo, x.T, lo), st)
		// the cells of the sub-slice named through the operand (a term to match for quantified facts about x[i])
		c.assume(st, fmt.Sprintf("(forall ((i Int)) (! (= (selem %s i) (selem %s (+ %s i))) :pattern ((selem %s i))))", f.val(in).T, x.T, lo, f.val(in).T))
	case *types.Basic: // string
		hi := fmt.Sprintf("(Str_len %s)", x.T)
		if in.High != nil {
			hi = f.val(in.High).T
		}
		c.oblige(st, f.path, "safety:slice", fmt.Sprintf("(and (<= 0 %s) (<= %s %s) (<= %s (Str_len %s)))", lo, lo, hi, hi, x.T), "string slice bounds in range", in.Pos())
		f.def(in, fmt.Sprintf("(Str_sub %s %s %s)", x.T, lo, hi), st)
	case *types.Pointer:
		at := xt.Elem().Underlying().(*types.Array)
		hi := fmt.Sprint(at.Len())
		if in.High != nil {
			hi = f.val(in.High).T
		}
		c.oblige(st, f.path, "safety:slice", fmt.Sprintf("(and (<= 0 %s) (<= %s %s) (<= %s %d))", lo, lo, hi, hi, at.Len()), "array slice bounds in range", in.Pos())
		f.def(in, fmt.Sprintf("(mkslice (oid %s) %s (- %s %s) (- %d %s))", x.T, lo, hi, lo, at.Len(), lo), st)
	default:
		subsetf("slice of %s", in.X.Type())
	}
}

func (f *frame) execConvert(in *ssa.Convert, st *State) {
	g := f.c.g
	x := f.val(in.X)
	from, to := g.TE.SortOf(in.X.Type()), g.TE.SortOf(in.Type())
	switch {
	case from == to && from != SSlice:
		v := x
		v.Typ = in.Type()
		f.setVal(in, v)
	case from == SInt && to == SReal:
		f.def(in, "(to_real "+x.T+")", st)
	case from == SReal && to == SInt:
		f.def(in, "(trunc "+x.T+")", st)
	case from == SStr && to == SSlice:
		uf := g.UF("bytes_of", []string{SStr}, SSlice)
		n := f.c.declare(valName(in), SSlice)
		_ = uf
		id := f.allocID(st)
		f.tagAllocKind(st, id, in.Type(), true)
		f.c.assume(st, fmt.Sprintf("(= %s (mkslice %s 0 (Str_len %s) (Str_len %s)))", n, id, x.T, x.T))
		if sl, ok := in.Type().Underlying().(*types.Slice); ok {
			if b, ok := sl.Elem().Underlying().(*types.Basic); ok && (b.Kind() == types.Uint8) {
				// []byte(s): the fresh array holds the bytes of s
				h := st.Heap(g.TE.CellHeap(sl.Elem()))
				f.c.assume(st, fmt.Sprintf("(forall ((i Int)) (! (=> (and (<= 0 i) (< i (Str_len %s))) (= (select %s (elem %s i)) (Str_at %s i))) :pattern ((select %s (elem %s i)))))", x.T, h, id, x.T, h, id))
			}
		}
		f.setVal(in, Val{T: n, Typ: in.Type()})
	case from == SSlice && to == SStr:
		// string(bytes): uninterpreted function of the current content; modelled as a fresh string with the right length
		n := f.c.declare(valName(in), SStr)
		f.c.assume(st, fmt.Sprintf("(= (Str_len %s) (slen %s))", n, x.T))
		if sl, ok := in.X.Type().Underlying().(*types.Slice); ok {
			if b, ok := sl.Elem().Underlying().(*types.Basic); ok && b.Kind() == types.Uint8 {
				// string(bytes): byte i of the string is element i of the slice (as it is now)
				h := st.Heap(g.TE.CellHeap(sl.Elem()))
				f.c.assume(st, fmt.Sprintf("(forall ((i Int)) (! (=> (and (<= 0 i) (< i (slen %s))) (= (Str_at %s i) (select %s (selem %s i)))) :pattern ((Str_at %s i))))", x.T, n, h, x.T, n))
				// string(b) is a function of the slice and the content of the byte cells (unifies with xmlChars of the decoder model)
				f.c.assume(st, fmt.Sprintf("(= %s (%s %s %s))", n, strOfBytesUF(g, sl.Elem()), x.T, h))
			}
		}
		f.setVal(in, Val{T: n, Typ: in.Type()})
	case from == SInt && to == SStr:
		uf := g.UF("str_of_rune", []string{SInt}, SStr)
		f.def(in, fmt.Sprintf("(%s %s)", uf, x.T), st)
	case from == SSlice && to == SSlice:
		v := x
		v.Typ = in.Type()
		f.setVal(in, v)
	default:
		subsetf("conversion %s -> %s", in.X.Type(), in.Type())
	}
}

func (f *frame) execTypeAssert(in *ssa.TypeAssert, st *State) {
	c := f.c
	g := c.g
	x := f.val(in.X)
	at := in.AssertedType
	var okT, payload string
	if isIface(at) {
		if it := at.Underlying().(*types.Interface); it.NumMethods() == 0 {
			okT = fmt.Sprintf("(not (= (itag %s) 0))", x.T)
		} else {
			okT = c.declare("assertok", SBool)
			c.assume(st, fmt.Sprintf("(=> %s (not (= (itag %s) 0)))", okT, x.T))
		}
		payload = x.T
	} else {
		okT = fmt.Sprintf("(= (itag %s) %d)", x.T, g.TE.Tag(at))
		payload = g.ifacePayload(x.T, at)
	}
	if in.CommaOk {
		okn := c.define(valName(in)+"_ok", SBool, okT)
		pv := c.define(valName(in), g.TE.SortOf(at), fmt.Sprintf("(ite %s %s %s)", okn, payload, g.TE.Zero(at)))
		f.setVal(in, Val{Tuple: []Val{f.mkVal(pv, at), {T: okn, Typ: types.Typ[types.Bool]}}, Typ: in.Type()})
		return
	}
	c.oblige(st, f.path, "safety:assert", okT, "type assertion holds", in.Pos())
	f.def(in, payload, st)
}

func isStringsBuilder(t types.Type) bool {
	nt, ok := t.(*types.Named)
	return ok && nt.Obj().Pkg() != nil && nt.Obj().Pkg().Path() == "strings" && nt.Obj().Name() == "Builder"
}

// builderFieldPaths: flattened paths of the strings.Builder fields of struct type t (through inline structs).
func builderFieldPaths(t types.Type, prefix string, depth int) []string {
	st, ok := t.Underlying().(*types.Struct)
	if !ok || depth > 4 {
		return nil
	}
	var out []string
	for i := 0; i < st.NumFields(); i++ {
		f := st.Field(i)
		p := joinPath(prefix, f.Name())
		if isStringsBuilder(f.Type()) {
			out = append(out, p)
		} else if isStruct(f.Type()) {
			out = append(out, builderFieldPaths(f.Type(), p, depth+1)...)
		}
	}
	return out
}
