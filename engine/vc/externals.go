package vc

import (
	"fmt"
	"go/constant"
	"go/token"
	"go/types"
	"strings"

	"golang.org/x/tools/go/ssa"
)

type extHandler func(f *frame, cm *ssa.CallCommon, args []Val, st *State, name string, resT types.Type, pos token.Pos) Val
type invHandler func(f *frame, cm *ssa.CallCommon, recv Val, args []Val, st *State, name string, resT types.Type, pos token.Pos) Val

var externals map[string]extHandler
var invokes map[string]invHandler

func init() {
	externals = map[string]extHandler{
		"fmt.Sprintf":   extSprintf,
		"fmt.Errorf":    extNonNilErr,
		"errors.New":    extNonNilErr,
		"strconv.Itoa":  func(f *frame, cm *ssa.CallCommon, a []Val, st *State, n string, rt types.Type, p token.Pos) Val { return Val{T: f.c.define(n, SStr, "(itoa "+a[0].T+")"), Typ: rt} },
		"strconv.Atoi":  extAtoi,
		"strconv.ParseFloat": extParseFloat,
		"fmt.Sscanf":    extSscanf,
		"encoding/xml.Unmarshal": extUnmarshal,
		"encoding/xml.Marshal":       extMarshal,
		"encoding/xml.MarshalIndent": extMarshal,
		"(*encoding/xml.Decoder).Token": extToken,
		"encoding/xml.NewDecoder": extNewDecoder,
		"(*encoding/xml.Encoder).Encode":        extEncode,
		"(*encoding/xml.Encoder).EncodeElement": extEncode,
		"(*encoding/xml.Encoder).EncodeToken":   extEncodeToken,
		"archive/zip.NewReader":       extZipNewReader,
		"archive/zip.OpenReader":      extZipOpenReader,
		"(*strings.Builder).WriteString": extBuilderWrite,
		"(*strings.Builder).String":      extBuilderString,
		"(*strings.Builder).Len":         extBuilderLen,
		"(*strings.Builder).Reset":       extBuilderReset,
		"(*strings.Builder).WriteByte":   extBuilderWriteUnknown,
		"(*strings.Builder).WriteRune":   extBuilderWriteUnknown,
		"(*strings.Builder).Write":       extBuilderWriteUnknown,
		"(*archive/zip.File).Open":    extZipFileOpen,
		"io.ReadAll":                  extReadAll,
		"image/png.Decode":            extNonNilOnSuccess,
		"image/jpeg.Decode":           extNonNilOnSuccess,
		"image/gif.Decode":            extNonNilOnSuccess,
		"os.MkdirAll":                 extIOErr,
		"os.Create":                   extOpenResource,
		"archive/zip.NewWriter":       extZipNewWriter,
		"(*archive/zip.Writer).Create": extZipCreate,
		"(*archive/zip.Writer).Close":  extCloseResource,
		"(*os.File).Close":            extCloseResource,
	}
	for _, n := range []string{"HasPrefix", "HasSuffix", "Contains", "TrimSpace", "TrimPrefix", "TrimSuffix", "ToLower", "ToUpper", "ReplaceAll", "Index", "Count", "Repeat", "EqualFold", "LastIndex", "Title"} {
		externals["strings."+n] = extPureUF("strings_" + n)
	}
	for _, n := range []string{"Ext", "Base", "Dir", "IsAbs"} {
		externals["path/filepath."+n] = extPureUF("filepath_" + n)
	}
	externals["strings.Fields"] = extStringList("strings_Fields", 1)
	externals["strings.Split"] = extStringList("strings_Split", 2)
	externals["strconv.FormatBool"] = extPureUF("strconv_FormatBool")
	externals["strconv.FormatInt"] = extPureUF("strconv_FormatInt")
	registerRegexpModel()
	invokes = map[string]invHandler{
		"io.Writer.Write": invZipEntryWrite,
		"error.Error": func(f *frame, cm *ssa.CallCommon, recv Val, a []Val, st *State, n string, rt types.Type, p token.Pos) Val {
			uf := f.c.g.UF("error_Error", []string{SIface}, SStr)
			return Val{T: f.c.define(n, SStr, fmt.Sprintf("(%s %s)", uf, recv.T)), Typ: rt}
		},
	}
}

// extPureUF models an external function as an uninterpreted function of its (first-class) arguments.
func extPureUF(sym string) extHandler {
	return func(f *frame, cm *ssa.CallCommon, args []Val, st *State, name string, resT types.Type, pos token.Pos) Val {
		g := f.c.g
		var sorts, ts []string
		for i, a := range args {
			sorts = append(sorts, g.TE.SortOf(cm.Args[i].Type()))
			ts = append(ts, a.T)
		}
		rs := g.TE.SortOf(resT)
		uf := g.UF(sym, sorts, rs)
		f.c.assumed["external "+strings.ReplaceAll(sym, "_", ".")+" modelled as an uninterpreted pure function"] = true
		n := f.c.define(name, rs, fmt.Sprintf("(%s %s)", uf, strings.Join(ts, " ")))
		return Val{T: n, Typ: resT}
	}
}

func extNonNilErr(f *frame, cm *ssa.CallCommon, args []Val, st *State, name string, resT types.Type, pos token.Pos) Val {
	r := f.freshResult(resT, st, name)
	f.c.assume(st, fmt.Sprintf("(not (= (itag %s) 0))", r.T))
	return r
}

func extHavocAll(f *frame, cm *ssa.CallCommon, args []Val, st *State, name string, resT types.Type, pos token.Pos) Val {
	f.havocAll(st)
	f.havocNext(st)
	f.c.assumed["external "+cm.StaticCallee().String()+": total; may write any modelled memory (havoc)"] = true
	return f.freshResult(resT, st, name)
}

func extAtoi(f *frame, cm *ssa.CallCommon, args []Val, st *State, name string, resT types.Type, pos token.Pos) Val {
	c := f.c
	e := f.freshResult(types.Universe.Lookup("error").Type(), st, name+"_err")
	c.assume(st, fmt.Sprintf("(= (= (itag %s) 0) (atoi_ok %s))", e.T, args[0].T))
	n := c.define(name, SInt, fmt.Sprintf("(ite (atoi_ok %s) (atoi %s) 0)", args[0].T, args[0].T))
	c.assumed["strconv.Atoi/Itoa: atoi(itoa(n)) = n (axiom)"] = true
	return Val{Tuple: []Val{{T: n, Typ: types.Typ[types.Int]}, e}, Typ: resT}
}

func extSscanf(f *frame, cm *ssa.CallCommon, args []Val, st *State, name string, resT types.Type, pos token.Pos) Val {
	g := f.c.g
	// fmt.Sscanf(s, "%d", &n): special case for the "%d" inverse of itoa
	if k, ok := cm.Args[1].(*ssa.Const); ok && k.Value != nil && constant.StringVal(k.Value) == "%d" {
		elems := f.varargElems(cm.Args[2], st)
		if len(elems) == 1 {
			ptr := fmt.Sprintf("(iref %s)", elems[0])
			h := g.TE.CellHeap(types.Typ[types.Int])
			okc := fmt.Sprintf("(atoi_ok %s)", args[0].T)
			cur := st.Heap(h)
			st.heaps[h] = f.c.defineHeap(h, fmt.Sprintf("(ite %s (store %s %s (atoi %s)) %s)", okc, cur, ptr, args[0].T, cur))
			r := f.freshResult(resT, st, name)
			f.c.assume(st, fmt.Sprintf("(= (= (itag %s) 0) %s)", r.Tuple[1].T, okc))
			f.c.assumed["fmt.Sscanf(s, \"%d\", &n): succeeds iff atoi_ok(s) and then n = atoi(s) (approximation: leading sign/whitespace handling of Sscanf not modelled)"] = true
			return r
		}
	}
	// fmt.Sscanf(s, "P%dQ", &n): success and value are functions of s; inverse of the concatenation P ++ itoa(n) ++ Q...
	if k, ok := cm.Args[1].(*ssa.Const); ok && k.Value != nil {
		if p, q, ok := scanPrefixDFormat(constant.StringVal(k.Value)); ok {
			elems := f.varargElems(cm.Args[2], st)
			vals := varargValues(cm.Args[2])
			if len(elems) == 1 && len(vals) == 1 {
				if mi, isMI := vals[0].(*ssa.MakeInterface); isMI {
					if pt, isPtr := mi.X.Type().Underlying().(*types.Pointer); isPtr && types.Identical(pt.Elem(), types.Typ[types.Int]) {
						okF, valF := g.sscanfPrefixD(constant.StringVal(k.Value), p, q)
						ptr := fmt.Sprintf("(iref %s)", elems[0])
						h := g.TE.CellHeap(types.Typ[types.Int])
						okc := fmt.Sprintf("(%s %s)", okF, args[0].T)
						// on failure the operand may or may not have been stored before the mismatch: unconstrained
						junk := f.c.declare("scanned", SInt)
						cur := st.Heap(h)
						st.heaps[h] = f.c.defineHeap(h, fmt.Sprintf("(store %s %s (ite %s (%s %s) %s))", cur, ptr, okc, valF, args[0].T, junk))
						r := f.freshResult(resT, st, name)
						f.c.assume(st, fmt.Sprintf("(= (= (itag %s) 0) %s)", r.Tuple[1].T, okc))
						f.c.assumed["fmt.Sscanf(s, \"P%dQ\", &n) (literal P, Q; Q not starting with a digit, '_' or sign): success and value are functions of s, and on P ++ itoa(n) ++ t with t starting with Q it succeeds with value n (axiom); on failure the operand is unconstrained"] = true
						return r
					}
				}
			}
		}
	}
	// general format: Sscanf writes only through the pointers it is given
	if vals := varargValues(cm.Args[2]); vals != nil {
		allOK := true
		for _, v := range vals {
			mi, ok := v.(*ssa.MakeInterface)
			if !ok {
				allOK = false
				break
			}
			pt, ok := mi.X.Type().Underlying().(*types.Pointer)
			if !ok || isStruct(pt.Elem()) {
				allOK = false
				break
			}
			if _, isArr := pt.Elem().Underlying().(*types.Array); isArr {
				allOK = false
				break
			}
		}
		if allOK {
			for _, v := range vals {
				mi := v.(*ssa.MakeInterface)
				pt := mi.X.Type().Underlying().(*types.Pointer)
				h := g.TE.CellHeap(pt.Elem())
				nv := f.c.declare("scanned", g.TE.SortOf(pt.Elem()))
				f.storeHeap(st, h, f.val(mi.X).T, nv)
			}
			f.c.assumed["fmt.Sscanf: total; writes only through the pointer arguments it is given (scanned values unconstrained)"] = true
			return f.freshResult(resT, st, name)
		}
	}
	f.havocHeaps(st, []string{g.TE.CellHeap(types.Typ[types.Int]), g.TE.CellHeap(types.Typ[types.Float64]), g.TE.CellHeap(types.Typ[types.String])})
	return f.freshResult(resT, st, name)
}

// varargValues returns the SSA values stored into the literal array behind a variadic argument.
func varargValues(v ssa.Value) []ssa.Value {
	sl, ok := v.(*ssa.Slice)
	if !ok {
		return nil
	}
	al, ok := sl.X.(*ssa.Alloc)
	if !ok {
		return nil
	}
	at, ok := al.Type().Underlying().(*types.Pointer).Elem().Underlying().(*types.Array)
	if !ok {
		return nil
	}
	out := make([]ssa.Value, at.Len())
	for _, ref := range *al.Referrers() {
		ia, ok := ref.(*ssa.IndexAddr)
		if !ok {
			continue
		}
		k, ok := ia.Index.(*ssa.Const)
		if !ok || k.Value == nil {
			return nil
		}
		idx, _ := constant.Int64Val(k.Value)
		for _, r2 := range *ia.Referrers() {
			if st, ok := r2.(*ssa.Store); ok && st.Addr == ssa.Value(ia) {
				if idx >= 0 && int(idx) < len(out) {
					out[idx] = st.Val
				}
			}
		}
	}
	for _, x := range out {
		if x == nil {
			return nil
		}
	}
	return out
}

// varargElems returns the interface elements of a variadic []any argument built from a literal array.
func (f *frame) varargElems(v ssa.Value, st *State) []string {
	g := f.c.g
	if k, ok := v.(*ssa.Const); ok && k.Value == nil {
		return []string{}
	}
	sl, ok := v.(*ssa.Slice)
	if !ok {
		return nil
	}
	al, ok := sl.X.(*ssa.Alloc)
	if !ok {
		return nil
	}
	at, ok := al.Type().Underlying().(*types.Pointer).Elem().Underlying().(*types.Array)
	if !ok {
		return nil
	}
	arr := f.val(al)
	h := g.TE.CellHeap(at.Elem())
	var out []string
	for i := 0; i < int(at.Len()); i++ {
		out = append(out, fmt.Sprintf("(select %s (elem (oid %s) %d))", st.Heap(h), arr.T, i))
	}
	return out
}

func extSprintf(f *frame, cm *ssa.CallCommon, args []Val, st *State, name string, resT types.Type, pos token.Pos) Val {
	c := f.c
	g := c.g
	k, ok := cm.Args[0].(*ssa.Const)
	if !ok || k.Value == nil {
		return f.freshResult(resT, st, name)
	}
	format := constant.StringVal(k.Value)
	elems := f.varargElems(cm.Args[1], st)
	if elems == nil {
		return f.freshResult(resT, st, name)
	}
	if format == "%.0f" && len(elems) == 1 {
		// "%.0f" prints the nearest integer (ties: the exact rule is not modelled): itoa(rnd(x)) with |rnd(x) - x| <= 1/2
		c.assumed["fmt.Sprintf(\"%.0f\", x) = itoa(rnd(x)) with |rnd(x) - x| <= 1/2 and rnd(n) = n for integers (axioms; tie-breaking and float64 rounding not modelled; NaN/Inf not modelled)"] = true
		return Val{T: c.define(name, SStr, fmt.Sprintf("(itoa (rnd (ireal %s)))", elems[0])), Typ: resT}
	}
	if format == "%d" && len(elems) == 1 {
		c.assumed["fmt.Sprintf(\"%d\", n) = itoa(n) with atoi(itoa(n)) = n (axiom)"] = true
		return Val{T: c.define(name, SStr, fmt.Sprintf("(itoa (iint %s))", elems[0])), Typ: resT}
	}
	// formats made only of literal text and plain %s / %d verbs whose operands are string- / integer-kinded values
	// without methods: the result is the concatenation of the pieces ("<prefix>%d" alone keeps its own symbol below)
	if _, isPrefixD := prefixDFormat(format); !isPrefixD {
		if t, ok := f.sprintfConcat(format, cm.Args[1], elems); ok {
			c.assumed["fmt.Sprintf with a format of literal text and plain %s/%d verbs (string-/integer-kinded operands without methods) = concatenation of the pieces, %d as itoa (right-nested Str_cat)"] = true
			return Val{T: c.define(name, SStr, t), Typ: resT}
		}
	}
	// general: uninterpreted function of the format and the argument values, injective-free
	var sorts []string
	for range elems {
		sorts = append(sorts, SIface)
	}
	uf := g.UF(fmt.Sprintf("sprintf_%s_%d", g.StrLit(format), len(elems)), sorts, SStr)
	c.assumed["fmt.Sprintf with other formats modelled as an uninterpreted function of its arguments"] = true
	if len(elems) == 0 {
		return Val{T: uf, Typ: resT}
	}
	// prefix-structured formats "xyz%d": injective in the integer argument
	if len(elems) == 1 && strings.HasSuffix(format, "%d") && strings.Count(format, "%") == 1 {
		ax := fmt.Sprintf("(assert (forall ((a Iface) (b Iface)) (! (=> (= (%s a) (%s b)) (= (iint a) (iint b))) :pattern ((%s a) (%s b)))))", uf, uf, uf, uf)
		found := false
		for _, a := range g.axioms {
			if a == ax {
				found = true
			}
		}
		if !found {
			g.axioms = append(g.axioms, ax)
		}
		c.assumed["fmt.Sprintf(\"<prefix>%d\", n) is injective in n (axiom)"] = true
	}
	return Val{T: c.define(name, SStr, fmt.Sprintf("(%s %s)", uf, strings.Join(elems, " "))), Typ: resT}
}

// xml decoder: ghost counter of remaining tokens (shared by all decoders).
func xmlRemHeap(g *Gen) string {
	h := "G_ghost_xmlrem"
	g.TE.noteHeapRaw(h, SInt)
	return h
}

// xml decoder: ghost position = number of tokens delivered so far (by successful Token calls). The tokens are those of
// one fixed sequence: the i-th successful Token call returns xml_tok(i), an uninterpreted, heap-independent function.
func xmlPosHeap(g *Gen) string {
	h := "G_ghost_xmlpos"
	g.TE.noteHeapRaw(h, SInt)
	return h
}

func xmlTokUF(g *Gen) string   { return g.UF("xml_tok", []string{SInt}, SIface) }
func xmlCharsUF(g *Gen) string { return g.UF("xml_chars", []string{SInt}, SStr) }

const xmlStreamAssumption = "(*xml.Decoder).Token delivers the tokens of one fixed finite sequence in order: the i-th successful call returns xmlTok(i) (a function of the position only) and advances the position xmlPos() by one, a failing call leaves the position unchanged; xmlChars(i) is string(t) of a CharData token t at the moment it is delivered; Token calls on different decoders are not interleaved (the repository creates one decoder, in parseDocument)"
const xmlDepthNote = "xmlDepth(i) = (#StartElement - #EndElement) among the tokens [0,i) (definition by the recurrence xmlDepth(i+1) = xmlDepth(i) + 1 | -1 | 0, axiom emitted in the VCs that mention xmlDepth)"
const xmlNestingAssumption = "(*xml.Decoder).Token returns properly nested and matched start/end tokens (documented guarantee of encoding/xml): an EndElement at position e has a matching StartElement at xmlOpen(e) < e with the same Name, xmlDepth(xmlOpen(e)) == xmlDepth(e+1), and every position in between lies strictly deeper (axiom emitted in the VCs that mention xmlOpen)"

// xmlPkgOf finds the types package encoding/xml among the imports of the loaded program.
func xmlPkgOf(g *Gen) *types.Package {
	for _, p := range g.Prog.AllPackages() {
		if p.Pkg.Path() == "encoding/xml" {
			return p.Pkg
		}
	}
	return nil
}

func xmlTokTag(g *Gen, name string) int {
	return g.TE.Tag(xmlPkgOf(g).Scope().Lookup(name).Type())
}

// xmlDepthUF declares xml_depth / xml_open and registers their (keyed) axioms: they are emitted only in the VCs
// that mention xml_depth (a prelude axiom in every VC of the reader costs proofs elsewhere).
func xmlDepthUF(g *Gen) string {
	_, known := g.ufDecl["xml_depth"]
	d := g.UF("xml_depth", []string{SInt}, SInt)
	if known {
		return d
	}
	tok := xmlTokUF(g)
	open := g.UF("xml_open", []string{SInt}, SInt)
	st, en := xmlTokTag(g, "StartElement"), xmlTokTag(g, "EndElement")
	seT := xmlPkgOf(g).Scope().Lookup("StartElement").Type()
	eeT := xmlPkgOf(g).Scope().Lookup("EndElement").Type()
	nameOf := func(x string, t types.Type) (string, string) {
		p := g.ifacePayload(x, t)
		s := g.TE.SortOf(t)
		ns := g.TE.SortOf(xmlPkgOf(g).Scope().Lookup("Name").Type())
		return fmt.Sprintf("(%s_Space (%s_Name %s))", ns, s, p), fmt.Sprintf("(%s_Local (%s_Name %s))", ns, s, p)
	}
	g.keyedAxiom("xml_depth", xmlDepthNote, fmt.Sprintf(
		"(assert (forall ((i Int)) (! (= (%s (+ i 1)) (+ (%s i) (ite (= (itag (%s i)) %d) 1 (ite (= (itag (%s i)) %d) (- 1) 0)))) :pattern ((%s i)))))",
		d, d, tok, st, tok, en, tok))
	sSp, sLo := nameOf(fmt.Sprintf("(%s (%s e))", tok, open), seT)
	eSp, eLo := nameOf(fmt.Sprintf("(%s e)", tok), eeT)
	g.keyedAxiom("xml_open", xmlNestingAssumption, fmt.Sprintf(
		"(assert (forall ((e Int)) (! (=> (and (>= e 0) (= (itag (%s e)) %d)) (and (<= 0 (%s e)) (< (%s e) e) (= (itag (%s (%s e))) %d) (= %s %s) (= %s %s) (= (%s (%s e)) (%s (+ e 1))))) :pattern ((%s e)))))",
		tok, en, open, open, tok, open, st, sLo, eLo, sSp, eSp, d, open, d, tok))
	g.keyedAxiom("xml_open", xmlNestingAssumption, fmt.Sprintf(
		"(assert (forall ((e Int) (k Int)) (! (=> (and (>= e 0) (= (itag (%s e)) %d) (< (%s e) k) (<= k e)) (> (%s k) (%s (%s e)))) :pattern ((%s e) (%s k)))))",
		tok, en, open, d, d, open, tok, d))
	return d
}

// keyedAxiom registers an axiom that is emitted only in VCs that mention the symbol key; note is reported as an
// assumption of the functions whose VCs get it.
func (g *Gen) keyedAxiom(key, note, ax string) {
	for _, a := range g.axioms {
		if a == ax {
			return
		}
	}
	if g.axiomKey == nil {
		g.axiomKey = map[string]string{}
		g.axiomNote = map[string]string{}
	}
	g.axiomKey[ax] = key
	g.axiomNote[ax] = note
	g.axioms = append(g.axioms, ax)
}

func extNewDecoder(f *frame, cm *ssa.CallCommon, args []Val, st *State, name string, resT types.Type, pos token.Pos) Val {
	h := xmlRemHeap(f.c.g)
	n := f.c.declare("xmlrem", SInt)
	f.c.assume(st, fmt.Sprintf("(>= %s %s)", n, st.Heap(h)))
	st.heaps[h] = n
	r := f.freshResult(resT, st, name)
	f.c.assume(st, fmt.Sprintf("(not (= %s nil))", r.T))
	return r
}

func extToken(f *frame, cm *ssa.CallCommon, args []Val, st *State, name string, resT types.Type, pos token.Pos) Val {
	c := f.c
	g := c.g
	h := xmlRemHeap(g)
	rem := st.Heap(h)
	ph := xmlPosHeap(g)
	p := st.Heap(ph)
	r := f.freshResult(resT, st, name)
	tok, err := r.Tuple[0], r.Tuple[1]
	// token kinds
	var tags []string
	xmlPkg := cm.StaticCallee().Pkg.Pkg
	for _, n := range []string{"StartElement", "EndElement", "CharData", "Comment", "ProcInst", "Directive"} {
		t := xmlPkg.Scope().Lookup(n).Type()
		tags = append(tags, fmt.Sprintf("(= (itag %s) %d)", tok.T, g.TE.Tag(t)))
	}
	ok := fmt.Sprintf("(= (itag %s) 0)", err.T)
	c.assume(st, fmt.Sprintf("(>= %s 0)", rem))
	c.assume(st, fmt.Sprintf("(>= %s 0)", p))
	c.assume(st, fmt.Sprintf("(ite %s (and (> %s 0) (or %s)) (= (itag %s) 0))", ok, rem, strings.Join(tags, " "), tok.T))
	// the token delivered is the one at the current position of the fixed sequence
	c.assume(st, fmt.Sprintf("(=> %s (= %s (%s %s)))", ok, tok.T, xmlTokUF(g), p))
	// character data: its text, as string(t) would give it now, is xmlChars(position)
	cdT := xmlPkg.Scope().Lookup("CharData").Type()
	if sl, isSl := cdT.Underlying().(*types.Slice); isSl {
		bh := st.Heap(g.TE.CellHeap(sl.Elem()))
		c.assume(st, fmt.Sprintf("(=> (and %s (= (itag %s) %d)) (= (%s (islice %s) %s) (%s %s)))", ok, tok.T, g.TE.Tag(cdT), strOfBytesUF(g, sl.Elem()), tok.T, bh, xmlCharsUF(g), p))
	}
	// errors of a Decoder are sticky (encoding/xml keeps the first error in d.err and rawToken returns it on every later call):
	// a failing call leaves nothing to deliver, so no later call on the sequence succeeds
	nr := c.define("xmlrem", SInt, fmt.Sprintf("(ite %s (- %s 1) 0)", ok, rem))
	c.assumed["(*xml.Decoder).Token: once a call has failed (io.EOF included) every later call fails (encoding/xml keeps its first error)"] = true
	st.heaps[h] = nr
	st.heaps[ph] = c.define("xmlpos", SInt, fmt.Sprintf("(ite %s (+ %s 1) %s)", ok, p, p))
	c.assumed["(*xml.Decoder).Token: total; on success returns one of the six token kinds and consumes one of finitely many remaining tokens (ghost counter); on error the token is nil"] = true
	c.assumed[xmlStreamAssumption] = true
	return r
}

// strOfBytesUF: string(b) as a function of the slice value and the current content of the byte cells.
func strOfBytesUF(g *Gen, elem types.Type) string {
	ch := g.TE.CellHeap(elem)
	return g.UF("str_of_bytes_"+ch, []string{SSlice, g.TE.heapSort[ch]}, SStr)
}


// xml encoder: ghost sequence of the values handed to Encode/EncodeElement that were accepted
// (shared by all encoders; a MarshalXML method under contract talks about the part it appended).
func encHeaps(g *Gen) (n, seq string) {
	n, seq = "G_ghost_encn", "G_ghost_encseq"
	g.TE.noteHeapRaw(n, SInt)
	g.TE.noteHeapRaw(seq, "(Array Int Iface)")
	return
}

func extEncode(f *frame, cm *ssa.CallCommon, args []Val, st *State, name string, resT types.Type, pos token.Pos) Val {
	c := f.c
	g := c.g
	nH, seqH := encHeaps(g)
	r := f.freshResult(resT, st, name)
	v := args[1].T
	if !isIface(cm.Args[1].Type()) {
		v = g.makeIface(v, cm.Args[1].Type())
	}
	n, seq := st.Heap(nH), st.Heap(seqH)
	ok := fmt.Sprintf("(= (itag %s) 0)", r.T)
	st.heaps[seqH] = c.define("encseq", "(Array Int Iface)", fmt.Sprintf("(ite %s (store %s %s %s) %s)", ok, seq, n, v, seq))
	st.heaps[nH] = c.define("encn", SInt, fmt.Sprintf("(ite %s (+ %s 1) %s)", ok, n, n))
	c.assumed["(*xml.Encoder).Encode/EncodeElement: total, may fail; when it succeeds the value has been written after everything written before (ghost sequence); it writes no document memory"] = true
	return r
}

func extEncodeToken(f *frame, cm *ssa.CallCommon, args []Val, st *State, name string, resT types.Type, pos token.Pos) Val {
	f.c.assumed["(*xml.Encoder).EncodeToken: total, may fail, writes no document memory"] = true
	return f.freshResult(resT, st, name)
}


// ---- I/O model (property C05): every external write/close may fail -------------------------------
// Ghost state (pseudo-heaps, havocked/merged like any heap, excluded from unchangedHeap()):
//   iofail     Bool               some I/O call on a live resource returned a non-nil error
//   open       Ref -> Bool        resources (files, zip writers) opened and not yet closed successfully
//   opencount  Int                number of such resources
//   zipdom/zipdata  Str -> Bool/Slice   entries completely written to the zip archive under construction
//   zipentry   Ref -> Str         entry name an io.Writer returned by (*zip.Writer).Create writes to
func ioHeaps(g *Gen) (fail, open, count, zdom, zdata, zentry string) {
	fail, open, count, zdom, zdata, zentry = "G_ghost_iofail", "G_ghost_open", "G_ghost_opencount", "G_ghost_zipdom", "G_ghost_zipdata", "G_ghost_zipentry"
	g.TE.noteHeapRaw(fail, SBool)
	g.TE.noteHeapRaw(open, "(Array Ref Bool)")
	g.TE.noteHeapRaw(count, SInt)
	g.TE.noteHeapRaw(zdom, "(Array Str Bool)")
	g.TE.noteHeapRaw(zdata, "(Array Str Slice)")
	g.TE.noteHeapRaw(zentry, "(Array Ref Str)")
	return
}

const ioAssumption = "I/O model: os.MkdirAll, os.Create, (*zip.Writer).Create, io.Writer.Write on a zip entry, (*zip.Writer).Close and (*os.File).Close are total and may each return any error at any call; a file is complete on disk only if every such call succeeded and every opened resource was closed successfully (kernel/file system behaviour itself is not modelled)"

func (f *frame) noteIOErr(st *State, errT string) {
	fail, _, _, _, _, _ := ioHeaps(f.c.g)
	st.heaps[fail] = f.c.define("iofail", SBool, fmt.Sprintf("(or %s (not (= (itag %s) 0)))", st.Heap(fail), errT))
	f.c.assumed[ioAssumption] = true
}

func extIOErr(f *frame, cm *ssa.CallCommon, args []Val, st *State, name string, resT types.Type, pos token.Pos) Val {
	r := f.freshResult(resT, st, name)
	f.noteIOErr(st, r.T)
	return r
}

func (f *frame) markOpen(st *State, ref string, cond string) {
	_, open, count, _, _, _ := ioHeaps(f.c.g)
	st.heaps[open] = f.c.define("open", "(Array Ref Bool)", fmt.Sprintf("(ite %s (store %s %s true) %s)", cond, st.Heap(open), ref, st.Heap(open)))
	st.heaps[count] = f.c.define("opencount", SInt, fmt.Sprintf("(ite %s (+ %s 1) %s)", cond, st.Heap(count), st.Heap(count)))
}

func extOpenResource(f *frame, cm *ssa.CallCommon, args []Val, st *State, name string, resT types.Type, pos token.Pos) Val {
	c := f.c
	pre := st.next
	f.havocNext(st)
	r := f.freshResult(resT, st, name)
	file, err := r.Tuple[0], r.Tuple[1]
	ok := fmt.Sprintf("(= (itag %s) 0)", err.T)
	_, open, _, _, _, _ := ioHeaps(c.g)
	c.assume(st, fmt.Sprintf("(ite %s (and (not (= %s nil)) (not (alloc %s %s)) (not (select %s %s))) (= %s nil))", ok, file.T, file.T, pre, st.Heap(open), file.T, file.T))
	f.noteIOErr(st, err.T)
	f.markOpen(st, file.T, ok)
	return r
}

func extZipNewWriter(f *frame, cm *ssa.CallCommon, args []Val, st *State, name string, resT types.Type, pos token.Pos) Val {
	c := f.c
	pre := st.next
	f.havocNext(st)
	r := f.freshResult(resT, st, name)
	_, open, _, zdom, _, _ := ioHeaps(c.g)
	c.assume(st, fmt.Sprintf("(and (not (= %s nil)) (not (alloc %s %s)) (not (select %s %s)))", r.T, r.T, pre, st.Heap(open), r.T))
	f.markOpen(st, r.T, "true")
	st.heaps[zdom] = "((as const (Array Str Bool)) false)"
	c.assumed[ioAssumption] = true
	return r
}

func extZipCreate(f *frame, cm *ssa.CallCommon, args []Val, st *State, name string, resT types.Type, pos token.Pos) Val {
	c := f.c
	pre := st.next
	f.havocNext(st)
	r := f.freshResult(resT, st, name)
	w, err := r.Tuple[0], r.Tuple[1]
	_, _, _, _, _, zentry := ioHeaps(c.g)
	ok := fmt.Sprintf("(= (itag %s) 0)", err.T)
	c.assume(st, fmt.Sprintf("(=> %s (and (not (= (itag %s) 0)) (not (= (iref %s) nil)) (not (alloc (iref %s) %s))))", ok, w.T, w.T, w.T, pre))
	st.heaps[zentry] = c.define("zipentry", "(Array Ref Str)", fmt.Sprintf("(ite %s (store %s (iref %s) %s) %s)", ok, st.Heap(zentry), w.T, args[1].T, st.Heap(zentry)))
	f.noteIOErr(st, err.T)
	return r
}

// invZipEntryWrite: Write on an io.Writer (in the code under contract these are zip entry writers).
func invZipEntryWrite(f *frame, cm *ssa.CallCommon, recv Val, args []Val, st *State, name string, resT types.Type, pos token.Pos) Val {
	c := f.c
	r := f.freshResult(resT, st, name)
	n, err := r.Tuple[0], r.Tuple[1]
	_, _, _, zdom, zdata, zentry := ioHeaps(c.g)
	ok := fmt.Sprintf("(= (itag %s) 0)", err.T)
	c.assume(st, fmt.Sprintf("(=> %s (= %s (slen %s)))", ok, n.T, args[0].T))
	ent := fmt.Sprintf("(select %s (iref %s))", st.Heap(zentry), recv.T)
	st.heaps[zdom] = c.define("zipdom", "(Array Str Bool)", fmt.Sprintf("(ite %s (store %s %s true) %s)", ok, st.Heap(zdom), ent, st.Heap(zdom)))
	st.heaps[zdata] = c.define("zipdata", "(Array Str Slice)", fmt.Sprintf("(ite %s (store %s %s %s) %s)", ok, st.Heap(zdata), ent, args[0].T, st.Heap(zdata)))
	f.noteIOErr(st, err.T)
	return r
}

// extCloseResource: Close of a file or zip writer. Closing a resource that is not open (never opened,
// or already closed successfully) returns an error and changes nothing; closing an open one either
// succeeds (it is then closed) or fails (recorded as an I/O failure; it stays not-successfully-closed).
func extCloseResource(f *frame, cm *ssa.CallCommon, args []Val, st *State, name string, resT types.Type, pos token.Pos) Val {
	c := f.c
	r := f.freshResult(resT, st, name)
	fail, open, count, _, _, _ := ioHeaps(c.g)
	isOpen := fmt.Sprintf("(select %s %s)", st.Heap(open), args[0].T)
	ok := fmt.Sprintf("(= (itag %s) 0)", r.T)
	c.assume(st, fmt.Sprintf("(=> (not %s) (not %s))", isOpen, ok))
	closed := c.define("closedok", SBool, fmt.Sprintf("(and %s %s)", isOpen, ok))
	st.heaps[fail] = c.define("iofail", SBool, fmt.Sprintf("(or %s (and %s (not %s)))", st.Heap(fail), isOpen, ok))
	st.heaps[count] = c.define("opencount", SInt, fmt.Sprintf("(ite %s (- %s 1) %s)", closed, st.Heap(count), st.Heap(count)))
	st.heaps[open] = c.define("open", "(Array Ref Bool)", fmt.Sprintf("(ite %s (store %s %s false) %s)", closed, st.Heap(open), args[0].T, st.Heap(open)))
	c.assumed[ioAssumption] = true
	return r
}


// extUnmarshal: xml.Unmarshal(data, &v) is total and writes only into the value v points to.
func extUnmarshal(f *frame, cm *ssa.CallCommon, args []Val, st *State, name string, resT types.Type, pos token.Pos) Val {
	hs, ok := f.c.g.unmarshalTargetHeaps(cm.Args[1])
	if !ok {
		return extHavocAll(f, cm, args, st, name, resT, pos)
	}
	f.havocHeaps(st, hs)
	f.havocNext(st)
	f.c.assumed["encoding/xml.Unmarshal: total (returns, never panics); writes only memory reachable from the value its second argument points to (modelled: every heap of the types reachable from that value is havocked)"] = true
	return f.freshResult(resT, st, name)
}


// extNonNilOnSuccess: (value, error) results of library constructors: value non-nil when err == nil.
func extNonNilOnSuccess(f *frame, cm *ssa.CallCommon, args []Val, st *State, name string, resT types.Type, pos token.Pos) Val {
	f.havocNext(st)
	r := f.freshResult(resT, st, name)
	v, err := r.Tuple[0], r.Tuple[1]
	nonnil := fmt.Sprintf("(not (= %s nil))", v.T)
	if isIface(v.Typ) {
		nonnil = fmt.Sprintf("(not (= (itag %s) 0))", v.T)
	}
	f.c.assume(st, fmt.Sprintf("(=> (= (itag %s) 0) %s)", err.T, nonnil))
	f.c.assumed["library constructors returning (value, error) ("+cm.StaticCallee().String()+"): value is non-nil when the error is nil"] = true
	return r
}

// extZipNewReader: on success the reader is non-nil and its File slice holds non-nil entries.
func extZipNewReader(f *frame, cm *ssa.CallCommon, args []Val, st *State, name string, resT types.Type, pos token.Pos) Val {
	c := f.c
	g := c.g
	r := extNonNilOnSuccess(f, cm, args, st, name, resT, pos)
	rd, err := r.Tuple[0], r.Tuple[1]
	rt := rd.Typ.Underlying().(*types.Pointer).Elem()
	ft, ok := fieldAt(rt, "", "File")
	if !ok {
		return r
	}
	fh := g.TE.FieldHeap(rt, "File", g.TE.SortOf(ft))
	et := ft.Underlying().(*types.Slice).Elem()
	ch := g.TE.CellHeap(et)
	files := fmt.Sprintf("(select %s %s)", st.Heap(fh), rd.T)
	c.assume(st, fmt.Sprintf("(=> (= (itag %s) 0) (forall ((i Int)) (! (=> (and (<= 0 i) (< i (slen %s))) (not (= (select %s (selem %s i)) nil))) :pattern ((selem %s i)))))", err.T, files, st.Heap(ch), files, files))
	c.assumed["archive/zip.NewReader: on success every element of Reader.File is non-nil"] = true
	return r
}


// extParseFloat: strconv.ParseFloat(s, 64) is a function of the string (pfloat_ok / pfloat); on a decimal
// integer string (what "%.0f"/Itoa produce) it returns that integer.
func extParseFloat(f *frame, cm *ssa.CallCommon, args []Val, st *State, name string, resT types.Type, pos token.Pos) Val {
	c := f.c
	r := f.freshResult(resT, st, name)
	v, err := r.Tuple[0], r.Tuple[1]
	c.assume(st, fmt.Sprintf("(= (= (itag %s) 0) (pfloat_ok %s))", err.T, args[0].T))
	c.assume(st, fmt.Sprintf("(=> (pfloat_ok %s) (= %s (pfloat %s)))", args[0].T, v.T, args[0].T))
	c.assumed["strconv.ParseFloat(s, 64) is a function of s (uninterpreted pfloat_ok/pfloat) with pfloat(s) = atoi(s) for decimal integer strings (atoi_ok), atoi(itoa(n)) = n; the value returned on failure is unconstrained"] = true
	return r
}


// strings.Builder (only builders that are whole local variables, i.e. addressed by a first-class reference):
// ghost content string per builder; WriteString appends, String returns it.
func sbHeap(g *Gen) string {
	h := "G_ghost_sb"
	g.TE.noteHeapRaw(h, "(Array Ref Str)")
	return h
}

// interiorKey: the ghost key of a strings.Builder that is a field of another object (an interior pointer): a reference
// term outside the range of allocated objects (negative array id), determined by the enclosing object and the field
// path, so that it aliases no first-class builder and no other field.
func interiorKey(base, path string) string {
	h := 0
	for _, ch := range path {
		h = (h*131 + int(ch)) % 1000003
	}
	return fmt.Sprintf("(elem (- 0 (oid %s)) %d)", base, h+1)
}

func builderRef(v Val) string {
	if v.T != "" {
		return v.T
	}
	if v.LV != nil && v.LV.Base != "" && !strings.HasPrefix(v.LV.Path, "G:") {
		return interiorKey(v.LV.Base, v.LV.Path)
	}
	return ""
}

func extBuilderWrite(f *frame, cm *ssa.CallCommon, args []Val, st *State, name string, resT types.Type, pos token.Pos) Val {
	r := f.freshResult(resT, st, name)
	args[0].T = builderRef(args[0])
	if args[0].T == "" {
		return r // a builder the engine cannot name: content not modelled
	}
	h := sbHeap(f.c.g)
	cur := st.Heap(h)
	st.heaps[h] = f.c.defineHeap(h, fmt.Sprintf("(store %s %s (Str_cat (select %s %s) %s))", cur, args[0].T, cur, args[0].T, args[1].T))
	f.c.assume(st, fmt.Sprintf("(= (itag %s) 0)", r.Tuple[1].T))
	f.c.assumed[sbAssumption] = true
	return r
}

// Len: the length of the content; Reset: the content becomes empty; WriteByte/WriteRune/Write: something is appended
// (the new content is an unconstrained string that is at least as long as the old one).
func extBuilderLen(f *frame, cm *ssa.CallCommon, args []Val, st *State, name string, resT types.Type, pos token.Pos) Val {
	args[0].T = builderRef(args[0])
	if args[0].T == "" {
		r := f.freshResult(resT, st, name)
		f.c.assume(st, fmt.Sprintf("(>= %s 0)", r.T))
		return r
	}
	f.c.assumed[sbAssumption] = true
	return Val{T: f.c.define(name, SInt, fmt.Sprintf("(Str_len (select %s %s))", st.Heap(sbHeap(f.c.g)), args[0].T)), Typ: resT}
}

func extBuilderReset(f *frame, cm *ssa.CallCommon, args []Val, st *State, name string, resT types.Type, pos token.Pos) Val {
	args[0].T = builderRef(args[0])
	if args[0].T == "" {
		return Val{Typ: resT}
	}
	h := sbHeap(f.c.g)
	st.heaps[h] = f.c.defineHeap(h, fmt.Sprintf("(store %s %s str_empty)", st.Heap(h), args[0].T))
	f.c.assumed[sbAssumption] = true
	return Val{Typ: resT}
}

func extBuilderWriteUnknown(f *frame, cm *ssa.CallCommon, args []Val, st *State, name string, resT types.Type, pos token.Pos) Val {
	r := f.freshResult(resT, st, name)
	args[0].T = builderRef(args[0])
	if args[0].T == "" {
		return r
	}
	h := sbHeap(f.c.g)
	cur := st.Heap(h)
	nc := f.c.declare("sbnew", SStr)
	f.c.assume(st, fmt.Sprintf("(>= (Str_len %s) (Str_len (select %s %s)))", nc, cur, args[0].T))
	st.heaps[h] = f.c.defineHeap(h, fmt.Sprintf("(store %s %s %s)", cur, args[0].T, nc))
	f.c.assumed[sbAssumption] = true
	return r
}

const sbAssumption = "strings.Builder: WriteString appends its argument to the builder's content and never fails; String returns the content; a new builder is empty"

// sbPre: the ghost key r names a builder that existed when the allocation counter was n: a first-class builder
// allocated below n, or a builder field (interior key) of an object allocated below n.
func sbPre(r, n string) string {
	return fmt.Sprintf("(or (alloc %s %s) (and ((_ is elem) %s) (< (earr %s) 0) (< (- 0 (earr %s)) %s)))", r, n, r, r, r, n)
}

// sbFrame: every builder that existed at bound (allocation counter) and is not one of keys has the same content in
// the versions a and b of the ghost builder heap.
func sbFrame(a, b, bound string, keys []string) string {
	if a == b {
		return "true"
	}
	conds := []string{sbPre("r", bound)}
	for _, k := range keys {
		conds = append(conds, fmt.Sprintf("(not (= r %s))", k))
	}
	return fmt.Sprintf("(forall ((r Ref)) (! (=> (and %s) (= (select %s r) (select %s r))) :pattern ((select %s r))))", strings.Join(conds, " "), b, a, b)
}

// builderMutator: methods of strings.Builder that change the content.
func builderMutator(name string) bool {
	switch name {
	case "(*strings.Builder).WriteString", "(*strings.Builder).Reset", "(*strings.Builder).WriteByte", "(*strings.Builder).WriteRune", "(*strings.Builder).Write":
		return true
	}
	return false
}

// localOnlyBuilder: v is a strings.Builder variable of the function itself whose address is used for nothing but
// calls of strings.Builder methods on it (it is not stored, returned, boxed or passed on): no caller can observe
// its content, so writing it is not a side effect.
func localOnlyBuilder(v ssa.Value, scope map[*ssa.BasicBlock]bool) bool {
	al, ok := v.(*ssa.Alloc)
	if !ok {
		return false
	}
	if scope != nil && !scope[al.Block()] {
		return false
	}
	if al.Referrers() == nil {
		return false
	}
	for _, ref := range *al.Referrers() {
		switch r := ref.(type) {
		case *ssa.DebugRef:
		case ssa.CallInstruction:
			cm := r.Common()
			sc := cm.StaticCallee()
			if sc == nil || !strings.HasPrefix(sc.String(), "(*strings.Builder).") || len(cm.Args) == 0 || cm.Args[0] != ssa.Value(al) {
				return false
			}
			for _, a := range cm.Args[1:] {
				if a == ssa.Value(al) {
					return false
				}
			}
		default:
			return false
		}
	}
	return true
}

func extBuilderString(f *frame, cm *ssa.CallCommon, args []Val, st *State, name string, resT types.Type, pos token.Pos) Val {
	args[0].T = builderRef(args[0])
	if args[0].T == "" {
		return f.freshResult(resT, st, name)
	}
	h := sbHeap(f.c.g)
	return Val{T: f.c.define(name, SStr, fmt.Sprintf("(select %s %s)", st.Heap(h), args[0].T)), Typ: resT}
}


// ---- read side of the archive model: the content of a zip entry is a function of the *zip.File (zf_len, zf_byte);
// (*zip.File).Open returns a fresh reader positioned at the start of that content; io.ReadAll on a reader that has
// not been read yet returns, on success, a fresh byte slice holding exactly that content.
func zipReadHeaps(g *Gen) (src, unread string) {
	src, unread = "G_ghost_rcsrc", "G_ghost_rcunread"
	g.TE.noteHeapRaw(src, "(Array Ref Ref)")
	g.TE.noteHeapRaw(unread, "(Array Ref Bool)")
	return
}

const zipReadAssumption = "archive read model: the bytes of a zip entry are a function of its *zip.File (zf_len/zf_byte); (*zip.File).Open returns a fresh reader at the start of the entry; io.ReadAll on a reader not read before returns exactly those bytes in a fresh slice when it reports no error (decompression, CRC checking and the zip directory itself are inside archive/zip and not modelled)"

func extZipFileOpen(f *frame, cm *ssa.CallCommon, args []Val, st *State, name string, resT types.Type, pos token.Pos) Val {
	c := f.c
	pre := st.next
	r := extNonNilOnSuccess(f, cm, args, st, name, resT, pos)
	rc, err := r.Tuple[0], r.Tuple[1]
	ok := fmt.Sprintf("(= (itag %s) 0)", err.T)
	src, unread := zipReadHeaps(c.g)
	c.assume(st, fmt.Sprintf("(=> %s (and (not (= (iref %s) nil)) (not (alloc (iref %s) %s))))", ok, rc.T, rc.T, pre))
	st.heaps[src] = c.define("rcsrc", "(Array Ref Ref)", fmt.Sprintf("(ite %s (store %s (iref %s) %s) %s)", ok, st.Heap(src), rc.T, args[0].T, st.Heap(src)))
	st.heaps[unread] = c.define("rcunread", "(Array Ref Bool)", fmt.Sprintf("(ite %s (store %s (iref %s) true) %s)", ok, st.Heap(unread), rc.T, st.Heap(unread)))
	c.assumed[zipReadAssumption] = true
	return r
}

func extReadAll(f *frame, cm *ssa.CallCommon, args []Val, st *State, name string, resT types.Type, pos token.Pos) Val {
	c := f.c
	g := c.g
	pre := st.next
	f.havocNext(st)
	r := f.freshResult(resT, st, name)
	data, err := r.Tuple[0], r.Tuple[1]
	src, unread := zipReadHeaps(g)
	bt := data.Typ.Underlying().(*types.Slice).Elem()
	ch := g.TE.CellHeap(bt)
	old := st.Heap(ch)
	f.havocHeaps(st, []string{ch})
	cur := st.Heap(ch)
	// the only cells that may differ are those of arrays allocated by this call
	c.assume(st, fmt.Sprintf("(forall ((r Ref)) (! (=> (alloc r %s) (= (select %s r) (select %s r))) :pattern ((select %s r))))", pre, cur, old, cur))
	zl := g.UF("zf_len", []string{"Ref"}, SInt)
	zb := g.UF("zf_byte", []string{"Ref", SInt}, g.TE.SortOf(bt))
	rd := fmt.Sprintf("(iref %s)", args[0].T)
	file := fmt.Sprintf("(select %s %s)", st.Heap(src), rd)
	cond := fmt.Sprintf("(and (= (itag %s) 0) (select %s %s))", err.T, st.Heap(unread), rd)
	c.assume(st, fmt.Sprintf("(>= (%s %s) 0)", zl, file))
	c.assume(st, fmt.Sprintf("(=> %s (and (= (slen %s) (%s %s)) (= (soff %s) 0) (or (= (scap %s) 0) (>= (sarr %s) %s)) (forall ((i Int)) (! (=> (and (<= 0 i) (< i (slen %s))) (= (select %s (selem %s i)) (%s %s i))) :pattern ((selem %s i))))))",
		cond, data.T, zl, file, data.T, data.T, data.T, pre, data.T, cur, data.T, zb, file, data.T))
	st.heaps[unread] = c.define("rcunread", "(Array Ref Bool)", fmt.Sprintf("(store %s %s false)", st.Heap(unread), rd))
	c.assumed[zipReadAssumption] = true
	return r
}

// splitFormat splits a Printf format into literal pieces and verbs; ok only if every verb is exactly %s or %d
// (no flags, width, precision, argument indexes or %%). pieces has len(verbs)+1 entries.
func splitFormat(format string) (pieces []string, verbs []byte, ok bool) {
	cur := ""
	for i := 0; i < len(format); i++ {
		if format[i] != '%' {
			cur += format[i : i+1] // bytes, not string(byte): a non-ASCII literal piece must stay the same UTF-8 string
			continue
		}
		if i+1 < len(format) && format[i+1] == '%' {
			// "%%" prints a literal percent sign
			cur += "%"
			i++
			continue
		}
		if i+1 >= len(format) || (format[i+1] != 's' && format[i+1] != 'd') {
			return nil, nil, false
		}
		pieces = append(pieces, cur)
		cur = ""
		verbs = append(verbs, format[i+1])
		i++
	}
	pieces = append(pieces, cur)
	return pieces, verbs, true
}

// plainOperand: the operand's static type is string-kinded (for %s) or integer-kinded (for %d) and has no methods
// (neither T nor *T), so fmt cannot be redirected through Formatter/Stringer/error.
func plainOperand(v ssa.Value, verb byte) bool {
	mi, ok := v.(*ssa.MakeInterface)
	if !ok {
		return false
	}
	t := mi.X.Type()
	b, ok := t.Underlying().(*types.Basic)
	if !ok {
		return false
	}
	if verb == 's' && b.Info()&types.IsString == 0 {
		return false
	}
	if verb == 'd' && b.Info()&types.IsInteger == 0 {
		return false
	}
	if types.NewMethodSet(t).Len() != 0 || types.NewMethodSet(types.NewPointer(t)).Len() != 0 {
		return false
	}
	return true
}

// sprintfConcat builds the right-nested concatenation term p0 ++ (a0 ++ (p1 ++ (a1 ++ ...))) for a format of
// literal pieces and %s/%d verbs (empty literal pieces are skipped).
func (f *frame) sprintfConcat(format string, varargs ssa.Value, elems []string) (string, bool) {
	pieces, verbs, ok := splitFormat(format)
	if !ok || len(verbs) == 0 || len(verbs) != len(elems) {
		return "", false
	}
	vals := varargValues(varargs)
	if vals == nil || len(vals) != len(verbs) {
		return "", false
	}
	var parts []string
	for i, vb := range verbs {
		if !plainOperand(vals[i], vb) {
			return "", false
		}
		if pieces[i] != "" {
			parts = append(parts, f.c.g.StrLit(pieces[i]))
		}
		if vb == 's' {
			parts = append(parts, fmt.Sprintf("(istr %s)", elems[i]))
		} else {
			parts = append(parts, fmt.Sprintf("(itoa (iint %s))", elems[i]))
		}
	}
	if last := pieces[len(pieces)-1]; last != "" {
		parts = append(parts, f.c.g.StrLit(last))
	}
	t := parts[len(parts)-1]
	for i := len(parts) - 2; i >= 0; i-- {
		t = fmt.Sprintf("(Str_cat %s %s)", parts[i], t)
	}
	return t, true
}

// scanPrefixDFormat: a Sscanf format "P%dQ" with literal P and Q free of '%' and white space, Q non-empty and not
// starting with a character %d would consume (digit, '_', sign).
func scanPrefixDFormat(format string) (p, q string, ok bool) {
	i := strings.Index(format, "%d")
	if i < 0 || strings.Count(format, "%") != 1 {
		return "", "", false
	}
	p, q = format[:i], format[i+2:]
	if q == "" || strings.ContainsAny(p+q, " \t\r\n") {
		return "", "", false
	}
	if c := q[0]; (c >= '0' && c <= '9') || c == '_' || c == '+' || c == '-' {
		return "", "", false
	}
	return p, q, true
}

// sscanfPrefixD declares the two symbols of fmt.Sscanf(s, "P%dQ", &n) — success and scanned value as functions of
// the input string — and the round-trip axiom with the concatenation P ++ itoa(n) ++ t for every t that starts with Q.
func (g *Gen) sscanfPrefixD(format, p, q string) (okF, valF string) {
	lit := g.StrLit(format)
	okF = g.UF("sscanf_ok_"+lit, []string{SStr}, SBool)
	valF = g.UF("sscanf_val_"+lit, []string{SStr}, SInt)
	conds := []string{fmt.Sprintf("(>= (Str_len t) %d)", len(q))}
	for i := 0; i < len(q); i++ {
		conds = append(conds, fmt.Sprintf("(= (Str_at t %d) %d)", i, q[i]))
	}
	in := "(Str_cat (itoa n) t)"
	if p != "" {
		in = fmt.Sprintf("(Str_cat %s %s)", g.StrLit(p), in)
	}
	ax := fmt.Sprintf("(assert (forall ((n Int) (t Str)) (! (=> (and %s) (and (%s %s) (= (%s %s) n))) :pattern (%s))))", strings.Join(conds, " "), okF, in, valF, in, in)
	for _, a := range g.axioms {
		if a == ax {
			return
		}
	}
	g.axioms = append(g.axioms, ax)
	return
}


// extZipOpenReader: zip.OpenReader(path) returns a *zip.ReadCloser whose embedded Reader (seen by callees through the
// interior key of (rc, "Reader")) lists non-nil entries, exactly as zip.NewReader's result does.
func extZipOpenReader(f *frame, cm *ssa.CallCommon, args []Val, st *State, name string, resT types.Type, pos token.Pos) Val {
	c := f.c
	g := c.g
	r := extNonNilOnSuccess(f, cm, args, st, name, resT, pos)
	rc, err := r.Tuple[0], r.Tuple[1]
	rct := rc.Typ.Underlying().(*types.Pointer).Elem()
	rdt, ok := fieldAt(rct, "", "Reader")
	if !ok {
		return r
	}
	ft, ok := fieldAt(rdt, "", "File")
	if !ok {
		return r
	}
	key := interiorKey(rc.T, "Reader")
	fh := g.TE.FieldHeap(rdt, "File", g.TE.SortOf(ft))
	et := ft.Underlying().(*types.Slice).Elem()
	ch := g.TE.CellHeap(et)
	files := fmt.Sprintf("(select %s %s)", st.Heap(fh), key)
	c.assume(st, fmt.Sprintf("(=> (= (itag %s) 0) (and (slice_ok %s %s) (forall ((i Int)) (! (=> (and (<= 0 i) (< i (slen %s))) (and (not (= (select %s (selem %s i)) nil)) (alloc (select %s (selem %s i)) %s))) :pattern ((selem %s i))))))", err.T, files, st.next, files, st.Heap(ch), files, st.Heap(ch), files, st.next, files))
	c.assumed["archive/zip.OpenReader: on success every element of the embedded Reader.File is non-nil"] = true
	return r
}

// strListUFs: a library function returning a list of strings that is a function of its string arguments
// (strings.Fields(s), strings.Split(s, sep)): <sym>_len(args) >= 0 and <sym>_at(args, i).
func strListUFs(g *Gen, sym string, nargs int) (lenF, atF string) {
	var sorts []string
	for i := 0; i < nargs; i++ {
		sorts = append(sorts, SStr)
	}
	lenF = g.UF(sym+"_len", sorts, SInt)
	atF = g.UF(sym+"_at", append(append([]string{}, sorts...), SInt), SStr)
	var bs, vs []string
	for i := 0; i < nargs; i++ {
		bs = append(bs, fmt.Sprintf("(a%d Str)", i))
		vs = append(vs, fmt.Sprintf("a%d", i))
	}
	app := fmt.Sprintf("(%s %s)", lenF, strings.Join(vs, " "))
	ax := fmt.Sprintf("(assert (forall (%s) (! (>= %s 0) :pattern (%s))))", strings.Join(bs, " "), app, app)
	for _, a := range g.axioms {
		if a == ax {
			return
		}
	}
	g.axioms = append(g.axioms, ax)
	return
}

// extStringList: the result is a fresh slice (nil when empty is allowed: a zero-length slice) whose length and
// elements are the list functions of the arguments; no existing memory is written.
func extStringList(sym string, nargs int) extHandler {
	return func(f *frame, cm *ssa.CallCommon, args []Val, st *State, name string, resT types.Type, pos token.Pos) Val {
		c := f.c
		g := c.g
		lenF, atF := strListUFs(g, sym, nargs)
		var ts []string
		for i := 0; i < nargs; i++ {
			ts = append(ts, args[i].T)
		}
		as := strings.Join(ts, " ")
		pre := st.next
		f.havocNext(st)
		r := f.freshResult(resT, st, name)
		ch := g.TE.CellHeap(types.Typ[types.String])
		old := st.Heap(ch)
		f.havocHeaps(st, []string{ch})
		cur := st.Heap(ch)
		c.assume(st, fmt.Sprintf("(forall ((r Ref)) (! (=> (alloc r %s) (= (select %s r) (select %s r))) :pattern ((select %s r))))", pre, cur, old, cur))
		c.assume(st, fmt.Sprintf("(and (= (slen %s) (%s %s)) (= (soff %s) 0) (or (= (scap %s) 0) (>= (sarr %s) %s)) (forall ((i Int)) (! (=> (and (<= 0 i) (< i (slen %s))) (= (select %s (selem %s i)) (%s %s i))) :pattern ((selem %s i)))))",
			r.T, lenF, as, r.T, r.T, r.T, pre, r.T, cur, r.T, atF, as, r.T))
		c.assumed["external "+strings.ReplaceAll(sym, "_", ".")+": the resulting list of strings is a function of the arguments (uninterpreted length and elements), returned in a fresh slice; no existing memory is written"] = true
		return r
	}
}
