package vc

import (
	"fmt"
	"go/types"
	"reflect"
	"sort"
	"strings"

	"golang.org/x/tools/go/ssa"
	"golang.org/x/tools/go/ssa/ssautil"
)

// RunStatic runs the structural (non-SMT) obligations configured for a property.
func (g *Gen) RunStatic(o CheckOpts, spec *PropSpec) []StaticResult {
	var out []StaticResult
	for _, name := range spec.Static {
		if fn, ok := staticChecks[name]; ok {
			out = append(out, fn(g, o)...)
		} else {
			out = append(out, StaticResult{Name: "static:" + name, Desc: "unknown static check", OK: false, Detail: "no such static check"})
		}
	}
	return out
}

var staticChecks = map[string]func(g *Gen, o CheckOpts) []StaticResult{}

// GlobalUse describes how the repo's functions use one package-level variable.
type GlobalUse struct {
	Name     string // pkg.name
	Type     string
	Mutable  bool     // its type can hold state that changes after initialisation (pointer, map, slice, struct, interface to repo type)
	Stores   []string // functions (other than init) that assign the variable itself
	Mutators []string // functions that write through the value read from it (map update, element/field store, delete, append target) or pass it to a call
	Readers  []string // functions that read it
}

func isInit(fn *ssa.Function) bool {
	return fn.Name() == "init" || strings.HasPrefix(fn.Name(), "init#") || fn.Synthetic == "package initializer"
}

// GlobalUses computes, for every package-level variable of the repository packages, who reads, assigns and mutates it.
func (g *Gen) GlobalUses() map[string]*GlobalUse {
	out := map[string]*GlobalUse{}
	get := func(gl *ssa.Global) *GlobalUse {
		k := gl.Pkg.Pkg.Name() + "." + gl.Name()
		if u, ok := out[k]; ok {
			return u
		}
		et := gl.Type().Underlying().(*types.Pointer).Elem()
		u := &GlobalUse{Name: k, Type: types.TypeString(et, shortQual)}
		switch t := et.Underlying().(type) {
		case *types.Pointer, *types.Map, *types.Slice, *types.Struct, *types.Chan:
			u.Mutable = true
		case *types.Interface:
			_ = t
			u.Mutable = true
		}
		if nt, ok := et.(*types.Pointer); ok {
			if n, ok := nt.Elem().(*types.Named); ok && n.Obj().Pkg() != nil && n.Obj().Pkg().Path() == "regexp" {
				u.Mutable = false // *regexp.Regexp is immutable after compilation
			}
		}
		if isErrorType(et) {
			u.Mutable = false
		}
		out[k] = u
		return u
	}
	add := func(l *[]string, s string) {
		for _, x := range *l {
			if x == s {
				return
			}
		}
		*l = append(*l, s)
	}
	// derived: values that (may) alias memory reachable from a global's value
	for fn := range ssautil.AllFunctions(g.Prog) {
		if !(inRepo(fn) || (fn.Parent() != nil && inRepo(fn.Parent()))) {
			continue
		}
		key := FuncKey(fn)
		if fn.Parent() != nil {
			key = FuncKey(fn.Parent()) + "$closure"
		}
		derived := map[ssa.Value]*ssa.Global{}
		for iter := 0; iter < 4; iter++ {
			for _, b := range fn.Blocks {
				for _, in := range b.Instrs {
					switch in := in.(type) {
					case *ssa.UnOp:
						if gl, ok := in.X.(*ssa.Global); ok && inRepoPkg(gl.Pkg) {
							derived[in] = gl
							if !isInit(fn) {
								add(&get(gl).Readers, key)
							}
						} else if d, ok := derived[in.X]; ok {
							derived[in] = d
						}
					case *ssa.FieldAddr:
						if gl, ok := in.X.(*ssa.Global); ok && inRepoPkg(gl.Pkg) {
							derived[in] = gl
						} else if d, ok := derived[in.X]; ok {
							derived[in] = d
						}
					case *ssa.IndexAddr:
						if d, ok := derived[in.X]; ok {
							derived[in] = d
						}
					case *ssa.Lookup:
						if d, ok := derived[in.X]; ok {
							derived[in] = d
						}
					case *ssa.Extract:
						if d, ok := derived[in.Tuple]; ok {
							derived[in] = d
						}
					case *ssa.Phi:
						for _, e := range in.Edges {
							if d, ok := derived[e]; ok {
								derived[in] = d
							}
						}
					case *ssa.Slice:
						if d, ok := derived[in.X]; ok {
							derived[in] = d
						}
					case *ssa.ChangeType:
						if d, ok := derived[in.X]; ok {
							derived[in] = d
						}
					case *ssa.MakeInterface:
						if d, ok := derived[in.X]; ok {
							derived[in] = d
						}
					}
				}
			}
		}
		if isInit(fn) {
			continue
		}
		for _, b := range fn.Blocks {
			for _, in := range b.Instrs {
				switch in := in.(type) {
				case *ssa.Store:
					if gl, ok := in.Addr.(*ssa.Global); ok && inRepoPkg(gl.Pkg) {
						add(&get(gl).Stores, key)
					} else if d, ok := derived[in.Addr]; ok {
						add(&get(d).Mutators, key)
					}
					// a reference to global-reachable mutable memory stored into another object escapes:
					// from then on anyone holding that object can write the shared memory
					if d, ok := derived[in.Val]; ok && get(d).Mutable && escapingRef(in.Val.Type()) {
						if _, isG := in.Addr.(*ssa.Global); !isG {
							add(&get(d).Mutators, key+" (stores a reference to it into another object)")
						}
					}
				case *ssa.Return:
					for _, r := range in.Results {
						if d, ok := derived[r]; ok && get(d).Mutable && escapingRef(r.Type()) {
							add(&get(d).Mutators, key+" (returns a reference to it)")
						}
					}
				case *ssa.MapUpdate:
					if d, ok := derived[in.Map]; ok {
						add(&get(d).Mutators, key)
					}
					if d, ok := derived[in.Value]; ok && get(d).Mutable && escapingRef(in.Value.Type()) {
						add(&get(d).Mutators, key+" (stores a reference to it into a map)")
					}
				case ssa.CallInstruction:
					cm := in.Common()
					if bi, ok := cm.Value.(*ssa.Builtin); ok {
						if bi.Name() == "delete" || bi.Name() == "append" || bi.Name() == "copy" {
							if d, ok := derived[cm.Args[0]]; ok {
								add(&get(d).Mutators, key)
							}
						}
						continue
					}
					// passing global-reachable mutable memory to a callee: the callee may write it
					args := cm.Args
					if cm.IsInvoke() {
						args = append([]ssa.Value{cm.Value}, args...)
					}
					for _, a := range args {
						d, ok := derived[a]
						if !ok {
							continue
						}
						if !get(d).Mutable {
							continue
						}
						switch a.Type().Underlying().(type) {
						case *types.Pointer, *types.Map, *types.Slice, *types.Interface:
							callee := "dynamic call"
							if sc := cm.StaticCallee(); sc != nil {
								callee = sc.String()
								if g.calleeKeepsArgsIntact(sc) {
									continue
								}
							} else if cm.IsInvoke() {
								callee = cm.Method.FullName()
							}
							add(&get(d).Mutators, key+" (passes it to "+callee+")")
						}
					}
				}
			}
		}
	}
	for _, u := range out {
		sort.Strings(u.Stores)
		sort.Strings(u.Mutators)
		sort.Strings(u.Readers)
	}
	return out
}

// escapingRef: a value of this type gives write access to the memory it refers to (error values are
// immutable by convention and excluded).
func escapingRef(t types.Type) bool {
	if isErrorType(t) {
		return false
	}
	switch t.Underlying().(type) {
	case *types.Pointer, *types.Map, *types.Slice:
		return true
	case *types.Interface:
		return true
	}
	return false
}

func inRepoPkg(p *ssa.Package) bool {
	return p != nil && strings.HasPrefix(p.Pkg.Path(), RepoModule)
}

// calleeKeepsArgsIntact: callees known not to write through their arguments (read-only library calls,
// and repo functions whose inferred write set is empty).
func (g *Gen) calleeKeepsArgsIntact(fn *ssa.Function) bool {
	if inRepo(fn) {
		ws := g.WriteSetOf(fn)
		return !ws.Top && len(ws.Names) == 0 && len(ws.Globals) == 0
	}
	s := fn.String()
	for _, p := range []string{"fmt.", "strings.", "(*regexp.Regexp).", "errors.", "strconv.", "(*sync.RWMutex).", "(*sync.Mutex).", "log.", "(*log.Logger).", "io.WriteString", "os.", "(*os.File)."} {
		if strings.HasPrefix(s, p) {
			return true
		}
	}
	return false
}

// DumpGlobals prints the global-variable usage table (govc globals).
func (g *Gen) DumpGlobals() {
	us := g.GlobalUses()
	var ks []string
	for k := range us {
		ks = append(ks, k)
	}
	sort.Strings(ks)
	for _, k := range ks {
		u := us[k]
		fmt.Printf("%s : %s mutable=%v\n  stores=%v\n  mutators=%v\n  readers=%d %v\n", u.Name, u.Type, u.Mutable, u.Stores, u.Mutators, len(u.Readers), firstN(u.Readers, 6))
	}
}

func firstN(s []string, n int) []string {
	if len(s) > n {
		return append(append([]string{}, s[:n]...), "...")
	}
	return s
}

// allowedMutableGlobals: package-level variables that may hold mutable state, with the reason.
var allowedMutableGlobals = map[string]string{
	"document.defaultLogger": "logging configuration (level, writer): read by every operation for logging only; no document content or accessor result depends on it",
}

func init() {
	staticChecks["shared-state"] = staticSharedState
}

// staticSharedState decides the sequential half of C07/C17 noninterference: no package-level variable of the
// repository packages holds state that changes after initialisation (so no operation on one document,
// template or style registry can influence another through a global), the logger excepted.
func staticSharedState(g *Gen, o CheckOpts) []StaticResult {
	us := g.GlobalUses()
	var ks []string
	for k := range us {
		ks = append(ks, k)
	}
	sort.Strings(ks)
	var bad, lines []string
	for _, k := range ks {
		u := us[k]
		state := "constant after init"
		switch {
		case len(u.Stores) == 0 && len(u.Mutators) == 0:
		case allowedMutableGlobals[k] != "":
			state = "mutable, allowed: " + allowedMutableGlobals[k]
			// the exception must stay what it is: only logger.go may touch it
			for _, m := range append(append([]string{}, u.Stores...), u.Mutators...) {
				fn := g.FuncByKey(strings.SplitN(m, " (", 2)[0])
				if fn == nil || !strings.HasSuffix(fnFile(g, fn), "/logger.go") {
					bad = append(bad, fmt.Sprintf("%s is written outside logger.go by %s", k, m))
				}
			}
		default:
			state = "MUTABLE SHARED STATE"
			bad = append(bad, fmt.Sprintf("%s (%s): assigned by %v, mutated by %v, read by %d functions e.g. %v", k, u.Type, u.Stores, u.Mutators, len(u.Readers), firstN(u.Readers, 4)))
		}
		lines = append(lines, fmt.Sprintf("%s : %s — %s (readers %d)", k, u.Type, state, len(u.Readers)))
	}
	res := StaticResult{Name: "static:shared-state:no-mutable-package-variable", OK: len(bad) == 0,
		Desc:   fmt.Sprintf("every package-level variable of pkg/document, pkg/style, pkg/markdown (%d found) is never assigned outside init and never written through, except the logger", len(ks)),
		Detail: strings.Join(lines, "\n")}
	if len(bad) > 0 {
		res.Detail = "VIOLATING VARIABLES:\n" + strings.Join(bad, "\n") + "\n\nALL:\n" + res.Detail
	}
	out := []StaticResult{res}
	// one obligation per variable as well, so that evidence lists them and a regression names the variable
	for _, k := range ks {
		u := us[k]
		ok := (len(u.Stores) == 0 && len(u.Mutators) == 0) || allowedMutableGlobals[k] != ""
		out = append(out, StaticResult{Name: "static:shared-state:" + k, OK: ok,
			Desc:   fmt.Sprintf("%s (%s) holds no state that changes after initialisation", k, u.Type),
			Detail: fmt.Sprintf("assigned by %v\nwritten through by %v\nread by %v", u.Stores, u.Mutators, u.Readers)})
	}
	return out
}

func init() {
	staticChecks["save-tobytes-steps"] = staticSaveToBytesSteps
}

// serializeCalls lists, in program order, the (*Document).serialize* methods a function calls.
func serializeCalls(fn *ssa.Function) []string {
	var out []string
	if fn == nil {
		return nil
	}
	for _, b := range topoOrder(fn) {
		for _, in := range b.Instrs {
			if c, ok := in.(ssa.CallInstruction); ok {
				if sc := c.Common().StaticCallee(); sc != nil && inRepo(sc) && strings.HasPrefix(sc.Name(), "serialize") {
					out = append(out, sc.Name())
				}
			}
		}
	}
	return out
}

// staticSaveToBytesSteps: Save and ToBytes run the same serialisation steps in the same order before
// they write d.parts (their contracts then say that both write exactly d.parts), so they cannot
// disagree about content.
func staticSaveToBytesSteps(g *Gen, o CheckOpts) []StaticResult {
	a := serializeCalls(g.FuncByKey("document.(*Document).Save"))
	b := serializeCalls(g.FuncByKey("document.(*Document).ToBytes"))
	ok := len(a) > 0 && strings.Join(a, ",") == strings.Join(b, ",")
	return []StaticResult{{Name: "static:save-tobytes-same-serialisation-steps", OK: ok,
		Desc:   "Save and ToBytes call the same serialize* steps in the same order before writing the parts",
		Detail: fmt.Sprintf("Save:    %v\nToBytes: %v", a, b)}}
}

var constNonNilCache = map[string]bool{}
var globalUsesCache map[string]*GlobalUse

// constNonNilGlobal: the package-level variable pkg.name is never assigned outside init, and init assigns
// it the result of a constructor that cannot return nil (errors.New, fmt.Errorf, regexp.MustCompile,
// a composite literal, make).
func (g *Gen) constNonNilGlobal(name string) bool {
	if v, ok := constNonNilCache[name]; ok {
		return v
	}
	res := false
	defer func() { constNonNilCache[name] = res }()
	if globalUsesCache == nil {
		globalUsesCache = g.GlobalUses()
	}
	if u, ok := globalUsesCache[name]; ok && len(u.Stores) > 0 {
		return false
	}
	i := strings.Index(name, ".")
	sp := g.SSAPkgs[name[:i]]
	if sp == nil {
		return false
	}
	gl, ok := sp.Members[name[i+1:]].(*ssa.Global)
	if !ok {
		return false
	}
	initFn := sp.Func("init")
	if initFn == nil {
		return false
	}
	nonNil := func(v ssa.Value) bool {
		if mi, ok := v.(*ssa.MakeInterface); ok {
			v = mi.X
		}
		switch x := v.(type) {
		case *ssa.Alloc, *ssa.MakeMap, *ssa.MakeSlice:
			return true
		case *ssa.Call:
			if sc := x.Common().StaticCallee(); sc != nil {
				switch sc.String() {
				case "errors.New", "fmt.Errorf", "regexp.MustCompile":
					return true
				}
			}
		}
		return false
	}
	n := 0
	for _, b := range initFn.Blocks {
		for _, in := range b.Instrs {
			if st, ok := in.(*ssa.Store); ok && st.Addr == ssa.Value(gl) {
				n++
				if !nonNil(st.Val) {
					return false
				}
			}
		}
	}
	res = n == 1
	return res
}

// constMapEntry is one key/value pair of a package-level map literal.
type constMapEntry struct {
	Key     ssa.Value
	Val     ssa.Value         // constant value, or nil when Fields is set
	Fields  map[int]ssa.Value // struct-literal value: field index -> constant
	StructT types.Type
}

// constGlobalMaps finds package-level map variables that are never assigned outside init nor written
// through (the shared-state analysis), and whose initialiser is a map literal of constants; it returns their
// contents as read off the SSA of the package initialiser.
func (g *Gen) constGlobalMaps() map[*ssa.Global][]constMapEntry {
	if g.constMaps != nil {
		return g.constMaps
	}
	g.constMaps = map[*ssa.Global][]constMapEntry{}
	if globalUsesCache == nil {
		globalUsesCache = g.GlobalUses()
	}
	for _, sp := range g.SSAPkgs {
		if !inRepoPkg(sp) {
			continue
		}
		initFn := sp.Func("init")
		if initFn == nil {
			continue
		}
		for _, b := range initFn.Blocks {
			for _, in := range b.Instrs {
				st, ok := in.(*ssa.Store)
				if !ok {
					continue
				}
				gl, ok := st.Addr.(*ssa.Global)
				if !ok {
					continue
				}
				mm, ok := st.Val.(*ssa.MakeMap)
				if !ok {
					continue
				}
				u := globalUsesCache[gl.Pkg.Pkg.Name()+"."+gl.Name()]
				if u != nil && (len(u.Stores) > 0 || len(u.Mutators) > 0) {
					continue
				}
				var entries []constMapEntry
				good := true
				for _, ref := range *mm.Referrers() {
					switch r := ref.(type) {
					case *ssa.MapUpdate:
						if r.Map != ssa.Value(mm) {
							good = false
							continue
						}
						if _, isC := r.Key.(*ssa.Const); !isC {
							good = false
							continue
						}
						e := constMapEntry{Key: r.Key}
						switch v := r.Value.(type) {
						case *ssa.Const:
							e.Val = v
						case *ssa.UnOp:
							al, isAl := v.X.(*ssa.Alloc)
							if !isAl {
								good = false
								continue
							}
							e.Fields = map[int]ssa.Value{}
							e.StructT = al.Type().Underlying().(*types.Pointer).Elem()
							for _, ar := range *al.Referrers() {
								fa, ok := ar.(*ssa.FieldAddr)
								if !ok {
									continue
								}
								for _, fr := range *fa.Referrers() {
									if s2, ok := fr.(*ssa.Store); ok && s2.Addr == ssa.Value(fa) {
										if _, isC := s2.Val.(*ssa.Const); !isC {
											good = false
										}
										e.Fields[fa.Field] = s2.Val
									}
								}
							}
						default:
							good = false
						}
						entries = append(entries, e)
					case *ssa.Store:
						// the assignment to the global itself
					case *ssa.DebugRef:
					default:
						good = false
					}
				}
				if good {
					g.constMaps[gl] = entries
				}
			}
		}
	}
	return g.constMaps
}

// assumeConstMaps states, for the entry state of a function, the contents of the constant package-level maps.
func (c *FnCtx) assumeConstMaps(st *State) {
	g := c.g
	fr := &frame{c: c}
	for gl, entries := range g.constGlobalMaps() {
		func() {
			defer func() {
				if r := recover(); r != nil {
					if _, ok := r.(ErrSubset); !ok {
						panic(r)
					}
				}
			}()
			mt := gl.Type().Underlying().(*types.Pointer).Elem()
			mtt := mt.Underlying().(*types.Map)
			gh := g.TE.GlobalHeap(gl.Pkg.Pkg.Name(), gl.Name(), mt)
			dom, val, ks, _ := g.TE.MapHeaps(mt)
			gv := st.Heap(gh)
			from := len(c.lines)
			defer func() {
				c.constMapSpans = append(c.constMapSpans, constMapSpan{tok: strings.SplitN(gv, "@", 2)[0], from: from, to: len(c.lines)})
			}()
			var keys []string
			for _, e := range entries {
				k := fr.constVal(e.Key.(*ssa.Const)).T
				keys = append(keys, fmt.Sprintf("(= k %s)", k))
				var v string
				if e.Val != nil {
					v = fr.constVal(e.Val.(*ssa.Const)).T
				} else {
					stt := e.StructT.Underlying().(*types.Struct)
					sn := g.TE.SortOf(e.StructT)
					var parts []string
					for i := 0; i < stt.NumFields(); i++ {
						if fv, ok := e.Fields[i]; ok {
							parts = append(parts, fr.constVal(fv.(*ssa.Const)).T)
						} else {
							parts = append(parts, g.TE.Zero(stt.Field(i).Type()))
						}
					}
					v = fmt.Sprintf("(mk_%s %s)", sn, strings.Join(parts, " "))
				}
				c.emit(fmt.Sprintf("(assert (= (select (select %s %s) %s) %s))", st.Heap(val), gv, k, v))
			}
			inDom := "false"
			if len(keys) > 0 {
				inDom = "(or " + strings.Join(keys, " ") + ")"
			}
			c.emit(fmt.Sprintf("(assert (not (= %s nil)))", gv))
			c.emit(fmt.Sprintf("(assert (forall ((k %s)) (! (= (select (select %s %s) k) %s) :pattern ((select (select %s %s) k)))))", ks, st.Heap(dom), gv, inDom, st.Heap(dom), gv))
			_ = mtt
			c.assumed[fmt.Sprintf("contents of the constant package-level map %s.%s are read off its initialiser (it is never assigned or written through: checked by the shared-state analysis)", gl.Pkg.Pkg.Name(), gl.Name())] = true
		}()
	}
}

type constMapSpan struct {
	tok      string
	from, to int
}

// pruneConstMaps blanks the assumptions about constant maps the function's VC never mentions (their real-valued
// contents cost solver time on goals that have nothing to do with them). Line indices are kept.
func (c *FnCtx) pruneConstMaps() {
	for _, sp := range c.constMapSpans {
		used := false
		for i, l := range c.lines {
			if i >= sp.from && i < sp.to {
				continue
			}
			if strings.Contains(l, sp.tok) {
				used = true
				break
			}
		}
		for _, o := range c.obls {
			if used {
				break
			}
			if strings.Contains(o.Goal, sp.tok) || strings.Contains(o.Reach, sp.tok) {
				used = true
			}
		}
		if !used {
			for i := sp.from; i < sp.to && i < len(c.lines); i++ {
				c.lines[i] = ""
			}
		}
	}
}

func init() {
	staticChecks["xml-order"] = staticXMLOrder
}

// staticXMLOrder decides the `//@ xml-order T: a, b, c` directives: encoding/xml writes the fields of a struct without a
// custom marshaler in declaration order, so "w:sdtPr comes before w:sdtContent" is a fact about the struct declaration.
// The check reads the struct type from go/types: the fields that are written as child elements (an xml tag whose name is
// not "-", without the attr/chardata/innerxml/comment/any flags; XMLName excluded), in declaration order, must be exactly
// the listed names. A reordered, renamed, removed or added element field fails the check. That encoding/xml really
// follows declaration order is part of the trusted base (documented behaviour of the package).
func staticXMLOrder(g *Gen, o CheckOpts) []StaticResult {
	var out []StaticResult
	for _, sp := range g.CS.XMLOrders {
		name := "static:xml-order:" + sp.Pkg + "." + sp.Type
		res := StaticResult{Name: name, Desc: fmt.Sprintf("child elements of %s.%s in declaration order are %s", sp.Pkg, sp.Type, strings.Join(sp.Names, ", "))}
		var got []string
		found := false
		if ssp := g.SSAPkgs[sp.Pkg]; ssp != nil {
			if obj := ssp.Pkg.Scope().Lookup(sp.Type); obj != nil {
				if st, ok := obj.Type().Underlying().(*types.Struct); ok {
					found = true
					for i := 0; i < st.NumFields(); i++ {
						if st.Field(i).Name() == "XMLName" {
							continue
						}
						tag := reflect.StructTag(st.Tag(i)).Get("xml")
						parts := strings.Split(tag, ",")
						elem := parts[0] != "-"
						for _, fl := range parts[1:] {
							switch fl {
							case "attr", "chardata", "cdata", "innerxml", "comment", "any":
								elem = false
							}
						}
						if !elem {
							continue
						}
						n := parts[0]
						if n == "" {
							n = st.Field(i).Name()
						}
						got = append(got, n)
					}
				}
			}
		}
		res.OK = found && strings.Join(got, ",") == strings.Join(sp.Names, ",")
		res.Detail = fmt.Sprintf("declared: %v\nrequired: %v", got, sp.Names)
		if !found {
			res.Detail = "no such struct type"
		}
		out = append(out, res)
	}
	if len(out) == 0 {
		out = append(out, StaticResult{Name: "static:xml-order", Desc: "xml-order directives", OK: false, Detail: "no xml-order directive found"})
	}
	return out
}
