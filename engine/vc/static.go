package vc

// RunStatic runs the structural (non-SMT) obligations configured for a property.
func (g *Gen) RunStatic(o CheckOpts, spec *PropSpec) []StaticResult {
	var out []StaticResult
	for _, name := range spec.Static {
		if fn, ok := staticChecks[name]; ok {
			out = append(out, fn(g, o)...)
		} else {
			out = append(out, StaticResult{Name: "static:" + name, Desc: "unknown static check", OK: false, Detail: "no such static check"})
		}
	}
	return out
}

var staticChecks = map[string]func(g *Gen, o CheckOpts) []StaticResult{}
