package vc

import (
	"fmt"
	"go/types"
	"sort"
	"strings"

	"golang.org/x/tools/go/ssa"
)

// Allocation tags ("which struct type lives at this allocation id").
//
// idtag(id) is the tag of the named struct type T when id is an object of type T or an array whose elements
// are of type T. It is fixed when the id is handed out:
//   - at the allocation sites of the function under verification the executor assumes it (tagAlloc);
//   - for the ids handed out during a call (callee under contract, callee abstracted by its footprint, library
//     function) the caller only learns what the inferred allocation set of the callee allows: for every
//     struct type the contracts talk about (elemOf/tagged) that the callee cannot allocate, no id of the
//     call's range carries its tag. Library code cannot allocate values of the repository's struct types
//     (reflection-based decoders, which can, have an unknown allocation set).
// The contracts use tags to state closure properties of a memory region ("every row array above the bound
// only refers to cell arrays above the bound") without quantifying over cells of other types.

// tagTypes: the struct types some contract mentions in elemOf(...)/tagged(...), by type text.
func (g *Gen) tagTypes() map[string]types.Type {
	if g.tagTys != nil {
		return g.tagTys
	}
	g.tagTys = map[string]types.Type{}
	note := func(pkg string, e SExpr) {
		var walk func(e SExpr)
		walk = func(e SExpr) {
			switch e := e.(type) {
			case SUnary:
				walk(e.X)
			case SBinary:
				walk(e.X)
				walk(e.Y)
			case SSelect:
				walk(e.X)
			case SIndex:
				walk(e.X)
				walk(e.I)
			case STypeAssert:
				walk(e.X)
			case SQuant:
				walk(e.Body)
			case SCall:
				if (e.Fn == "elemOf" || e.Fn == "tagged") && len(e.Args) == 2 {
					if lit, ok := e.Args[1].(SStrLit); ok {
						if p := g.pkgTypes(pkg); p != nil {
							func() {
								defer func() { recover() }()
								t := resolveTypeText(p, lit.V)
								g.tagTys[g.TE.TypeName(t)] = t
							}()
						}
					}
				}
				for _, a := range e.Args {
					walk(a)
				}
			}
		}
		walk(e)
	}
	for _, pf := range g.CS.Pures {
		if pf.Body != nil {
			note(pf.Pkg, pf.Body)
		}
	}
	for _, c := range g.CS.Funcs {
		for _, cl := range c.Requires {
			note(c.Pkg, cl.Expr)
		}
		for _, cl := range c.Ensures {
			note(c.Pkg, cl.Expr)
		}
		for _, l := range c.Loops {
			for _, cl := range l.Invariants {
				note(c.Pkg, cl.Expr)
			}
		}
	}
	return g.tagTys
}

// assumeCallAllocs: the ids in [pre, post) were handed out during a call whose possible allocations are
// `allocs` (nil = unknown): none of them carries the tag of a mentioned struct type outside that set.
func (f *frame) assumeCallAllocs(st *State, pre, post string, allocs map[string]bool) {
	if allocs == nil || pre == post {
		return
	}
	g := f.c.g
	var names []string
	for n := range g.tagTypes() {
		names = append(names, n)
	}
	sort.Strings(names)
	for _, n := range names {
		if allocs[n] {
			continue
		}
		f.c.assume(st, fmt.Sprintf("(forall ((a Int)) (! (=> (and (<= %s a) (< a %s)) (not (= (%s a) %d))) :pattern ((%s a))))", pre, post, g.idTagUF(), g.TE.Tag(g.tagTys[n]), g.idTagUF()))
	}
	f.c.assumed["allocation tags: ids handed out during a call carry only tags of struct types in the callee's inferred allocation set (static over-approximation over the call graph); library functions allocate no values of the repository's struct types"] = true
}

// calleeAllocs: the inferred allocation set for a call (nil = unknown).
func (f *frame) calleeAllocs(cm *ssa.CallCommon) map[string]bool {
	g := f.c.g
	out := map[string]bool{}
	addFn := func(fn *ssa.Function) bool {
		ws := g.WriteSetOf(fn)
		if ws.Top || ws.Allocs["*"] {
			return false
		}
		for k := range ws.Allocs {
			out[k] = true
		}
		return true
	}
	if cm.IsInvoke() {
		it, ok := cm.Value.Type().Underlying().(*types.Interface)
		if !ok {
			return nil
		}
		for _, fn := range g.implementers(it, cm.Method.Name()) {
			if !addFn(fn) {
				return nil
			}
		}
	} else if _, ok := cm.Value.(*ssa.Builtin); ok {
		return nil // builtins allocate in the executor itself (tagged there)
	} else if callee := cm.StaticCallee(); callee != nil {
		if !addFn(callee) {
			return nil
		}
	} else {
		fv := f.val(cm.Value)
		if fv.Fn == nil || !addFn(fv.Fn) {
			return nil
		}
	}
	// function literals handed to the callee may run during the call
	for _, a := range cm.Args {
		if v, ok := f.vals[a]; ok && v.Fn != nil {
			if !addFn(v.Fn) {
				return nil
			}
		}
	}
	return out
}


// emitTagFree states the bookkeeping fact of the state: no id in [tagLo, next) carries the tag of a mentioned
// struct type (all of them were handed out by allocations of other types in this function or during calls
// whose allocation set excludes the mentioned types). One quantified fact instead of an arithmetic cover of
// the interval by the individual allocations.
func (c *FnCtx) emitTagFree(st *State) {
	g := c.g
	key := "tagfree:" + st.reach + ":" + st.tagLo + ":" + st.next
	if c.dcsDone == nil {
		c.dcsDone = map[string]bool{}
	}
	if c.dcsDone[key] {
		return
	}
	c.dcsDone[key] = true
	var names []string
	for n := range g.tagTypes() {
		names = append(names, n)
	}
	sort.Strings(names)
	for _, n := range names {
		c.assume(st, fmt.Sprintf("(forall ((a Int)) (! (=> (and (<= %s a) (< a %s)) (not (= (%s a) %d))) :pattern ((%s a))))", st.tagLo, st.next, g.idTagUF(), g.TE.Tag(g.tagTys[n]), g.idTagUF()))
	}
}


// mentionsTags: the SMT text talks about allocation tags, directly or through a spec function that does.
func (g *Gen) mentionsTags(text string) bool {
	if strings.Contains(text, "idtag") {
		return true
	}
	if g.tagPures == nil {
		g.tagPures = map[string]bool{}
		for changed := true; changed; {
			changed = false
			for _, pf := range g.Pures {
				if g.tagPures[pureSym(pf)] || pf.Body == nil {
					continue
				}
				hit := mentionsCall(pf.Body, "elemOf", "tagged")
				if !hit {
					for _, q := range g.Pures {
						if g.tagPures[pureSym(q)] && mentionsCall(pf.Body, q.Name) {
							hit = true
						}
					}
				}
				if hit {
					g.tagPures[pureSym(pf)] = true
					changed = true
				}
			}
		}
	}
	for sym := range g.tagPures {
		if strings.Contains(text, sym+" ") || strings.Contains(text, sym+")") {
			return true
		}
	}
	return false
}
