package vc

import (
	"fmt"
	"go/types"
	"sort"
	"strings"

	"golang.org/x/tools/go/ssa"
	"golang.org/x/tools/go/ssa/ssautil"
)

// WriteSet is a set of heap names a function may write (Top = anything).
type WriteSet struct {
	Names   map[string]bool
	Top     bool
	Globals map[string]bool // package-level variables written (pkg.name)
	GReads  map[string]bool // package-level variables read
	TopWhy  string
	Allocs  map[string]bool // named struct types (TypeName) of which the function may allocate objects or arrays
}

func newWS() *WriteSet {
	return &WriteSet{Names: map[string]bool{}, Globals: map[string]bool{}, GReads: map[string]bool{}, Allocs: map[string]bool{}}
}

func (w *WriteSet) Sorted() []string {
	var out []string
	for k := range w.Names {
		out = append(out, k)
	}
	sort.Strings(out)
	return out
}

func (w *WriteSet) add(o *WriteSet) bool {
	ch := false
	if o.Top && !w.Top {
		w.Top = true
		w.TopWhy = o.TopWhy
		ch = true
	}
	for k := range o.Names {
		if !w.Names[k] {
			w.Names[k] = true
			ch = true
		}
	}
	for k := range o.Globals {
		if !w.Globals[k] {
			w.Globals[k] = true
			ch = true
		}
	}
	for k := range o.GReads {
		if !w.GReads[k] {
			w.GReads[k] = true
			ch = true
		}
	}
	for k := range o.Allocs {
		if !w.Allocs[k] {
			w.Allocs[k] = true
			ch = true
		}
	}
	return ch
}

type embedSite struct {
	root types.Type
	path string
}

var embedCache map[string][]embedSite

// embedSites finds, for each struct type name, where it is embedded inline in repo struct types.
func (g *Gen) embedSites() map[string][]embedSite {
	if embedCache != nil {
		return embedCache
	}
	embedCache = map[string][]embedSite{}
	var visit func(root types.Type, t types.Type, path string, depth int)
	visit = func(root types.Type, t types.Type, path string, depth int) {
		st, ok := t.Underlying().(*types.Struct)
		if !ok || depth > 4 {
			return
		}
		for i := 0; i < st.NumFields(); i++ {
			f := st.Field(i)
			if isStruct(f.Type()) {
				p := joinPath(path, f.Name())
				n := g.TE.StructName(f.Type())
				embedCache[n] = append(embedCache[n], embedSite{root, p})
				visit(root, f.Type(), p, depth+1)
			}
		}
	}
	for _, sp := range g.SSAPkgs {
		if !strings.HasPrefix(sp.Pkg.Path(), RepoModule) {
			continue
		}
		for _, m := range sp.Members {
			if tm, ok := m.(*ssa.Type); ok {
				if isStruct(tm.Type()) {
					visit(tm.Type(), tm.Type(), "", 0)
				}
			}
		}
	}
	return embedCache
}

// structWriteHeaps: all heaps that may hold the leaves of struct type t under path,
// including sites where t is embedded inline in other structs.
func (g *Gen) structWriteHeaps(t types.Type, path string) []string {
	var out []string
	pt := typeAtPathSafe(t, path)
	if pt == nil {
		return nil
	}
	add := func(root types.Type, p string, leafT types.Type) {
		if isStruct(leafT) {
			for _, l := range g.TE.Leaves(leafT, p) {
				out = append(out, g.TE.FieldHeap(root, l.Path, l.Sort))
			}
		} else if _, isA := leafT.Underlying().(*types.Array); !isA {
			out = append(out, g.TE.FieldHeap(root, p, g.TE.SortOf(leafT)))
		}
	}
	add(t, path, pt)
	if isStruct(t) {
		for _, es := range g.embedSites()[g.TE.StructName(t)] {
			add(es.root, joinPath(es.path, path), pt)
		}
	}
	return out
}

func typeAtPathSafe(root types.Type, path string) (t types.Type) {
	defer func() {
		if r := recover(); r != nil {
			t = nil
		}
	}()
	return typeAtPath(root, path)
}

// addrHeaps: heaps that a store through address value `addr` may write.
func (g *Gen) addrHeaps(addr ssa.Value, ws *WriteSet) {
	defer func() {
		if r := recover(); r != nil {
			if _, ok := r.(ErrSubset); ok {
				ws.Top = true
				ws.TopWhy = "unmodelled type in store"
				return
			}
			panic(r)
		}
	}()
	pt, ok := addr.Type().Underlying().(*types.Pointer)
	if !ok {
		ws.Top = true
		return
	}
	elem := pt.Elem()
	switch a := addr.(type) {
	case *ssa.FieldAddr:
		// walk to the root of inline structs
		path := ""
		var cur ssa.Value = a
		for {
			fa, ok := cur.(*ssa.FieldAddr)
			if !ok {
				break
			}
			st := fa.X.Type().Underlying().(*types.Pointer).Elem()
			path = joinPath(st.Underlying().(*types.Struct).Field(fa.Field).Name(), path)
			cur = fa.X
			if _, inner := cur.(*ssa.FieldAddr); !inner {
				for _, h := range g.structWriteHeaps(st, path) {
					ws.Names[h] = true
				}
				return
			}
		}
	case *ssa.Global:
		ws.Globals[a.Pkg.Pkg.Name()+"."+a.Name()] = true
		if !isStruct(elem) {
			if _, isA := elem.Underlying().(*types.Array); !isA {
				ws.Names[g.TE.GlobalHeap(a.Pkg.Pkg.Name(), a.Name(), elem)] = true
			}
		}
		return
	}
	if isStruct(elem) {
		for _, h := range g.structWriteHeaps(elem, "") {
			ws.Names[h] = true
		}
		return
	}
	if _, isA := elem.Underlying().(*types.Array); isA {
		return // whole-array stores are not modelled; arrays only arise as fresh literals
	}
	ws.Names[g.TE.CellHeap(elem)] = true
}

func (g *Gen) elemWriteHeaps(et types.Type, ws *WriteSet) {
	defer func() {
		if r := recover(); r != nil {
			if _, ok := r.(ErrSubset); ok {
				ws.Top = true
				ws.TopWhy = "unmodelled element type"
				return
			}
			panic(r)
		}
	}()
	if isStruct(et) {
		for _, h := range g.structWriteHeaps(et, "") {
			ws.Names[h] = true
		}
		return
	}
	ws.Names[g.TE.CellHeap(et)] = true
}

// instrWrites adds the direct writes of an instruction; calls are returned for the caller to resolve.
// freshRoot: the address is a location inside an object or array allocated by this very function
// (a composite literal, a local, a variadic argument array, a make) within `scope` (nil: anywhere
// in the function). A write there is not a side effect on memory that existed before.
func freshRoot(addr ssa.Value, scope map[*ssa.BasicBlock]bool) bool {
	for depth := 0; depth < 16; depth++ {
		switch a := addr.(type) {
		case *ssa.Alloc:
			return scope == nil || scope[a.Block()]
		case *ssa.FieldAddr:
			addr = a.X
		case *ssa.IndexAddr:
			switch x := a.X.(type) {
			case *ssa.Alloc:
				addr = x
			case *ssa.Slice:
				if al, ok := x.X.(*ssa.Alloc); ok {
					addr = al
				} else if ms, ok := x.X.(*ssa.MakeSlice); ok {
					return scope == nil || scope[ms.Block()]
				} else {
					return false
				}
			case *ssa.MakeSlice:
				return scope == nil || scope[x.Block()]
			default:
				return false
			}
		default:
			return false
		}
	}
	return false
}

func (g *Gen) instrWrites(in ssa.Instruction, ws *WriteSet) (callees []*ssa.Function) {
	return g.instrWritesIn(in, ws, nil)
}

// noteAlloc records that an ARRAY with elements of (named struct) type T may be allocated: t is the slice or
// array type. Single objects of T are not recorded: they carry the negated tag and never count as cells.
func (g *Gen) noteAlloc(t types.Type, ws *WriteSet) {
	var et types.Type
	switch u := t.Underlying().(type) {
	case *types.Slice:
		et = u.Elem()
	case *types.Array:
		et = u.Elem()
	default:
		return
	}
	if nt, ok := et.(*types.Named); ok && isStruct(nt) {
		ws.Allocs[g.TE.TypeName(nt)] = true
	}
}

func (g *Gen) instrWritesIn(in ssa.Instruction, ws *WriteSet, scope map[*ssa.BasicBlock]bool) (callees []*ssa.Function) {
	switch a := in.(type) {
	case *ssa.Alloc:
		g.noteAlloc(a.Type().Underlying().(*types.Pointer).Elem(), ws)
	case *ssa.MakeSlice:
		g.noteAlloc(a.Type(), ws)
	case ssa.CallInstruction:
		if bi, ok := a.Common().Value.(*ssa.Builtin); ok && bi.Name() == "append" {
			g.noteAlloc(a.Common().Args[0].Type().Underlying(), ws)
		}
	}
	switch in := in.(type) {
	case *ssa.Store:
		if freshRoot(in.Addr, scope) {
			return
		}
		g.addrHeaps(in.Addr, ws)
	case *ssa.UnOp:
		if gl, ok := in.X.(*ssa.Global); ok {
			ws.GReads[gl.Pkg.Pkg.Name()+"."+gl.Name()] = true
		}
	case *ssa.MapUpdate:
		func() {
			defer func() {
				if r := recover(); r != nil {
					ws.Top = true
				}
			}()
			d, v, _, _ := g.TE.MapHeaps(in.Map.Type())
			ws.Names[d] = true
			ws.Names[v] = true
		}()
	case *ssa.Next:
		if rng, ok := in.Iter.(*ssa.Range); ok {
			if h := g.seenHeap(rng); h != "" {
				ws.Names[h] = true
				n, key, pos := g.seenSeqHeaps(rng)
				ws.Names[n], ws.Names[key], ws.Names[pos] = true, true, true
			}
		}
	case *ssa.MakeClosure:
		if fn, ok := in.Fn.(*ssa.Function); ok {
			callees = append(callees, fn)
		}
	case ssa.CallInstruction:
		cm := in.Common()
		if bi, ok := cm.Value.(*ssa.Builtin); ok {
			switch bi.Name() {
			case "append", "copy":
				if sl, ok := cm.Args[0].Type().Underlying().(*types.Slice); ok {
					g.elemWriteHeaps(sl.Elem(), ws)
				}
			case "delete":
				func() {
					defer func() {
						if r := recover(); r != nil {
							ws.Top = true
						}
					}()
					d, _, _, _ := g.TE.MapHeaps(cm.Args[0].Type())
					ws.Names[d] = true
				}()
			}
			return
		}
		if cm.IsInvoke() && cm.Method.Name() == "Write" && cm.Value.Type().String() == "io.Writer" {
			fail, _, _, zdom, zdata, _ := ioHeaps(g)
			ws.Names[fail], ws.Names[zdom], ws.Names[zdata] = true, true, true
		}
		if cm.IsInvoke() {
			// CHA over repo types
			it := cm.Value.Type().Underlying().(*types.Interface)
			for _, fn := range g.implementers(it, cm.Method.Name()) {
				callees = append(callees, fn)
			}
			return
		}
		if sc := cm.StaticCallee(); sc != nil {
			if builderMutator(sc.String()) && len(cm.Args) > 0 {
				// the content of a builder that is a plain local of this function is invisible to every caller
				if !localOnlyBuilder(cm.Args[0], scope) {
					ws.Names[sbHeap(g)] = true
				}
				return
			}
			if (sc.String() == "encoding/xml.Unmarshal" || sc.String() == "encoding/json.Unmarshal") && len(cm.Args) == 2 {
				// documented effect: writes only into the value its second argument points to
				if hs, ok := g.unmarshalTargetHeaps(cm.Args[1]); ok {
					for _, h := range hs {
						ws.Names[h] = true
					}
					ws.Allocs["*"] = true // decoders allocate by reflection: unknown allocation set
					return
				}
			}
			callees = append(callees, sc)
			return
		}
		// dynamic call through a function value
		if mc, ok := cm.Value.(*ssa.MakeClosure); ok {
			if fn, ok := mc.Fn.(*ssa.Function); ok {
				callees = append(callees, fn)
				return
			}
		}
		// a call through a function-typed field or parameter: a caller-supplied callback, assumed to write
		// nothing the contracts talk about (the same callback-purity assumption the executor lists)
	}
	return
}

var implCache = map[string][]*ssa.Function{}

func (g *Gen) implementers(it *types.Interface, method string) []*ssa.Function {
	key := it.String() + "." + method
	if v, ok := implCache[key]; ok {
		return v
	}
	var out []*ssa.Function
	for _, sp := range g.SSAPkgs {
		if !strings.HasPrefix(sp.Pkg.Path(), RepoModule) {
			continue
		}
		for _, m := range sp.Members {
			tm, ok := m.(*ssa.Type)
			if !ok {
				continue
			}
			for _, t := range []types.Type{tm.Type(), types.NewPointer(tm.Type())} {
				if types.Implements(t, it) {
					ms := g.Prog.MethodSets.MethodSet(t)
					if sel := ms.Lookup(tm.Object().Pkg(), method); sel != nil {
						if fn := g.Prog.MethodValue(sel); fn != nil {
							out = append(out, fn)
						}
					}
				}
			}
		}
	}
	implCache[key] = out
	return out
}

// externalWrites: heap effects of non-repo callees.
func (g *Gen) externalWrites(fn *ssa.Function, ws *WriteSet) {
	switch fn.String() {
	case "encoding/xml.Unmarshal", "encoding/json.Unmarshal":
		ws.Top = true
		ws.TopWhy = fn.String()
	case "(*strings.Builder).WriteString", "(*strings.Builder).Reset", "(*strings.Builder).WriteByte", "(*strings.Builder).WriteRune", "(*strings.Builder).Write":
		ws.Names[sbHeap(g)] = true
	case "(*encoding/xml.Decoder).Token", "encoding/xml.NewDecoder":
		ws.Names[xmlRemHeap(g)] = true
		ws.Names[xmlPosHeap(g)] = true
	case "(*encoding/xml.Encoder).Encode", "(*encoding/xml.Encoder).EncodeElement":
		n, seq := encHeaps(g)
		ws.Names[n] = true
		ws.Names[seq] = true
	case "encoding/xml.Marshal", "encoding/xml.MarshalIndent":
		n, seq, out := marshalHeaps(g)
		ws.Names[n] = true
		ws.Names[seq] = true
		ws.Names[out] = true
		tn, tseq := marshalTryHeaps(g)
		ws.Names[tn] = true
		ws.Names[tseq] = true
	case "os.MkdirAll", "os.Create", "archive/zip.NewWriter", "(*archive/zip.Writer).Create", "(*archive/zip.Writer).Close", "(*os.File).Close":
		fail, open, count, zdom, zdata, zentry := ioHeaps(g)
		for _, h := range []string{fail, open, count, zdom, zdata, zentry} {
			ws.Names[h] = true
		}
	case "(*archive/zip.File).Open", "io.ReadAll":
		src, unread := zipReadHeaps(g)
		ws.Names[src], ws.Names[unread] = true, true
	case "fmt.Sscanf", "fmt.Sscan":
		ws.Names[g.TE.CellHeap(types.Typ[types.Int])] = true
		ws.Names[g.TE.CellHeap(types.Typ[types.Float64])] = true
		ws.Names[g.TE.CellHeap(types.Typ[types.String])] = true
	case "sort.Slice", "sort.Strings", "sort.Ints", "sort.SliceStable", "sort.Sort":
		ws.Top = true
		ws.TopWhy = fn.String()
	}
}

// ComputeWriteSets computes transitive write sets for all repo functions (fixpoint).
func (g *Gen) ComputeWriteSets() {
	all := ssautil.AllFunctions(g.Prog)
	var fns []*ssa.Function
	for fn := range all {
		if inRepo(fn) || (fn.Parent() != nil && inRepo(fn.Parent())) {
			fns = append(fns, fn)
		}
	}
	sort.Slice(fns, func(i, j int) bool { return fns[i].String() < fns[j].String() })
	direct := map[*ssa.Function]*WriteSet{}
	calls := map[*ssa.Function][]*ssa.Function{}
	for _, fn := range fns {
		ws := newWS()
		for _, b := range fn.Blocks {
			for _, in := range b.Instrs {
				for _, cal := range g.instrWrites(in, ws) {
					calls[fn] = append(calls[fn], cal)
				}
			}
		}
		direct[fn] = ws
		g.WS[fn] = newWS()
		g.WS[fn].add(ws)
	}
	for changed := true; changed; {
		changed = false
		for _, fn := range fns {
			for _, cal := range calls[fn] {
				cw, ok := g.WS[cal]
				if !ok {
					cw = newWS()
					if !inRepo(cal) {
						g.externalWrites(cal, cw)
					}
					g.WS[cal] = cw
				}
				if g.opaqueRepoFn(cal) {
					continue
				}
				if g.WS[fn].add(cw) {
					changed = true
				}
			}
		}
	}
}

// WriteSetOf returns the transitive write set of fn.
func (g *Gen) WriteSetOf(fn *ssa.Function) *WriteSet {
	if ws, ok := g.WS[fn]; ok {
		return ws
	}
	ws := newWS()
	if !inRepo(fn) {
		g.externalWrites(fn, ws)
	} else {
		ws.Top = true
		ws.TopWhy = "unknown function " + fn.String()
	}
	g.WS[fn] = ws
	return ws
}

// loopWrites: heaps written by the blocks of a loop.
func (g *Gen) loopWrites(fn *ssa.Function, li *loopInfo) *WriteSet {
	ws := newWS()
	for b := range li.blocks {
		for _, in := range b.Instrs {
			for _, cal := range g.instrWritesIn(in, ws, li.blocks) {
				if g.opaqueRepoFn(cal) {
					continue
				}
				if con := g.ContractOf(cal); con != nil {
					for _, em := range con.Emits {
						n, sq := gseqHeaps(g, em.Seq)
						ws.Names[n], ws.Names[sq] = true, true
					}
				}
				if con := g.ContractOf(cal); con != nil && con.HasModifies && !con.Inline && cal.Pkg != nil {
					// a callee under contract is abstracted by its modifies clause at the call site
					star := false
					for _, m := range con.Modifies {
						if m == "*" {
							star = true
							break
						}
						for _, h := range g.resolveHeapSpec(cal.Pkg.Pkg, m) {
							ws.Names[h] = true
						}
					}
					if !star {
						// ghost state is not nameable in a modifies clause: the call site havocs whatever ghost heaps
						// the callee's inferred write set contains (applyContract), so the loop must havoc them too
						for _, h := range g.WriteSetOf(cal).Sorted() {
							if strings.HasPrefix(h, "G_ghost_") {
								ws.Names[h] = true
							}
						}
						continue
					}
				}
				if cal.String() == "io.ReadAll" {
					// allocates and fills a fresh byte array: inside a loop the cell heap gets a new version per iteration
					ws.Names[g.TE.CellHeap(types.Universe.Lookup("byte").Type())] = true
				}
				if cal.String() == "strings.Fields" || cal.String() == "strings.Split" {
					// returns a fresh array of strings: the cell heap gets a new version per iteration
					ws.Names[g.TE.CellHeap(types.Typ[types.String])] = true
				}
				ws.add(g.WriteSetOf(cal))
			}
		}
	}
	return ws
}


// unmarshalTargetHeaps: the heaps that may be written when a decoder fills the object `v` points to
// (v is the `any` argument of Unmarshal, built from a *T): every field heap of every struct type reachable
// from T through fields, pointers and slices, plus the cell heaps of slice elements.
func (g *Gen) unmarshalTargetHeaps(v ssa.Value) (hs []string, ok bool) {
	mi, isMI := v.(*ssa.MakeInterface)
	if !isMI {
		return nil, false
	}
	pt, isPtr := mi.X.Type().Underlying().(*types.Pointer)
	if !isPtr {
		return nil, false
	}
	defer func() {
		if r := recover(); r != nil {
			if _, isSub := r.(ErrSubset); isSub {
				hs, ok = nil, false
				return
			}
			panic(r)
		}
	}()
	seen := map[string]bool{}
	set := map[string]bool{}
	var visit func(t types.Type)
	visit = func(t types.Type) {
		key := types.TypeString(t, nil)
		if seen[key] {
			return
		}
		seen[key] = true
		switch u := t.Underlying().(type) {
		case *types.Pointer:
			visit(u.Elem())
		case *types.Slice:
			if !isStruct(u.Elem()) {
				set[g.TE.CellHeap(u.Elem())] = true
			}
			visit(u.Elem())
		case *types.Struct:
			for _, h := range g.structWriteHeaps(t, "") {
				set[h] = true
			}
			for i := 0; i < u.NumFields(); i++ {
				visit(u.Field(i).Type())
			}
		case *types.Map:
			d, vv, _, _ := g.TE.MapHeaps(t)
			set[d], set[vv] = true, true
			visit(u.Elem())
		case *types.Interface:
			panic(ErrSubset{"unmarshal into interface"})
		}
	}
	visit(pt.Elem())
	for h := range set {
		hs = append(hs, h)
	}
	sort.Strings(hs)
	return hs, true
}


// DumpFootprints prints the inferred write and allocation sets of the functions whose key contains one of subs.
func (g *Gen) DumpFootprints(subs []string) {
	var fns []*ssa.Function
	for fn := range g.WS {
		fns = append(fns, fn)
	}
	sort.Slice(fns, func(i, j int) bool { return fns[i].String() < fns[j].String() })
	for _, fn := range fns {
		k := FuncKey(fn)
		hit := false
		for _, s := range subs {
			if strings.Contains(k, s) {
				hit = true
			}
		}
		if !hit {
			continue
		}
		ws := g.WS[fn]
		var al []string
		for a := range ws.Allocs {
			al = append(al, a)
		}
		sort.Strings(al)
		fmt.Printf("%s\n  top=%v %s\n  writes: %s\n  allocs: %s\n", k, ws.Top, ws.TopWhy, strings.Join(ws.Sorted(), " "), strings.Join(al, " "))
	}
}
