package vc

import (
	"fmt"
	"go/token"
	"go/types"
	"sort"
	"strings"

	"golang.org/x/tools/go/ssa"
)

func inRepo(fn *ssa.Function) bool {
	if fn == nil {
		return false
	}
	if fn.Pkg != nil {
		return strings.HasPrefix(fn.Pkg.Pkg.Path(), RepoModule)
	}
	if fn.Object() != nil && fn.Object().Pkg() != nil {
		return strings.HasPrefix(fn.Object().Pkg().Path(), RepoModule)
	}
	return false
}

func fnFile(g *Gen, fn *ssa.Function) string {
	if fn.Pos().IsValid() {
		return shortFile(g.Prog.Fset.Position(fn.Pos()).Filename)
	}
	return ""
}

// opaqueRepoFn: repo functions treated as having no effect on modelled memory
// (logging, error construction). Their results are fresh.
func (g *Gen) opaqueRepoFn(fn *ssa.Function) bool {
	file := fnFile(g, fn)
	return strings.HasSuffix(file, "/logger.go") || strings.HasSuffix(file, "/errors.go")
}

func (f *frame) freshResult(t types.Type, st *State, prefix string) Val {
	c := f.c
	if tup, ok := t.(*types.Tuple); ok {
		var vs []Val
		for i := 0; i < tup.Len(); i++ {
			vs = append(vs, f.freshResult(tup.At(i).Type(), st, prefix))
		}
		return Val{Tuple: vs, Typ: t}
	}
	n := c.declare(prefix, c.g.TE.SortOf(t))
	c.assume(st, c.wellFormed(n, t, st.next))
	return f.mkVal(n, t)
}

func (f *frame) execCall(v ssa.Value, cm *ssa.CallCommon, pos token.Pos, st *State, b *ssa.BasicBlock) {
	pre := st.next
	res := f.doCall(cm, pos, st, b, v)
	if st.next != pre {
		allocs := f.calleeAllocs(cm)
		f.assumeCallAllocs(st, pre, st.next, allocs)
		// the tag-free interval survives the call only if the callee cannot allocate arrays of a mentioned type
		free := allocs != nil
		for n := range f.c.g.tagTypes() {
			if allocs[n] {
				free = false
			}
		}
		if _, isBuiltin := cm.Value.(*ssa.Builtin); isBuiltin {
			free = true // append/make inside the executor: tagged (and the interval reset) at the allocation itself
		}
		if !free {
			st.tagLo = st.next
		}
	}
	if v != nil {
		if res.Typ == nil {
			res.Typ = v.Type()
		}
		f.vals[v] = res
	}
}

func (f *frame) doCall(cm *ssa.CallCommon, pos token.Pos, st *State, b *ssa.BasicBlock, v ssa.Value) Val {
	c := f.c
	g := c.g
	var resT types.Type = cm.Signature().Results()
	if cm.Signature().Results().Len() == 1 {
		resT = cm.Signature().Results().At(0).Type()
	}
	name := "call"
	if v != nil {
		name = valName(v)
	}
	if cm.IsInvoke() {
		return f.invoke(cm, pos, st, resT, name)
	}
	if bi, ok := cm.Value.(*ssa.Builtin); ok {
		return f.builtin(bi, cm, pos, st, name, resT)
	}
	callee := cm.StaticCallee()
	if callee == nil {
		// call through a function value
		fv := f.val(cm.Value)
		if fv.Fn != nil && len(fv.Fn.FreeVars) == 0 {
			callee = fv.Fn
		} else if fv.Fn == nil {
			// a caller-supplied callback (function-typed field or parameter): assumed to return and to
			// write nothing of the memory the contracts talk about (callback-purity assumption)
			c.assumed["caller-supplied callbacks (calls through function-typed fields/parameters, e.g. ErrorCallback) terminate and write no document/exporter memory"] = true
			return f.freshResult(resT, st, name)
		} else {
			subsetf("call through closure value in %s", f.fn)
		}
	}
	var args []Val
	for _, a := range cm.Args {
		args = append(args, f.val(a))
	}
	if inRepo(callee) {
		for i, a := range cm.Args {
			if args[i].T == "" && args[i].LV != nil {
				if key, ok := f.embeddedExternalPointer(a, args[i]); ok {
					args[i].T = key
					args[i].LV = nil
				}
			}
		}
	}
	if !inRepo(callee) {
		// a function literal handed to a library function (regexp.ReplaceAllStringFunc, sort.Slice, ...) may be
		// called by it any number of times: everything the literal (transitively) may write is havocked
		for _, a := range args {
			if a.Fn == nil {
				continue
			}
			ws := g.WriteSetOf(a.Fn)
			if ws.Top {
				f.havocAll(st)
			} else {
				f.havocHeaps(st, ws.Sorted())
			}
			f.havocNext(st)
			c.assumed["a function literal passed to a library function is called only during that call (zero or more times); its inferred write set is havocked at the call, its body is not checked for panics"] = true
		}
	}
	if ext, ok := externals[callee.String()]; ok {
		return ext(f, cm, args, st, name, resT, pos)
	}
	if !inRepo(callee) {
		c.assumed["external "+callee.String()+": total, writes no modelled memory, result unconstrained"] = true
		return f.freshResult(resT, st, name)
	}
	if g.opaqueRepoFn(callee) {
		r := f.freshResult(resT, st, name)
		// error constructors return non-nil errors
		if strings.HasSuffix(fnFile(g, callee), "/errors.go") && g.TE.SortOf(resT) == SIface && (strings.HasPrefix(callee.Name(), "New") || callee.Name() == "WrapError" || callee.Name() == "WrapErrorWithContext") {
			if callee.Name() == "WrapError" || callee.Name() == "WrapErrorWithContext" {
				// WrapError(op, err): nil iff err nil
				last := args[len(args)-1]
				if callee.Name() == "WrapErrorWithContext" {
					last = args[1]
				}
				c.assume(st, fmt.Sprintf("(= (= (itag %s) 0) (= (itag %s) 0))", r.T, last.T))
			} else {
				c.assume(st, fmt.Sprintf("(not (= (itag %s) 0))", r.T))
			}
			c.assumed["repo error constructors (errors.go) return non-nil errors; WrapError(_, err) is nil iff err is nil"] = true
		}
		return r
	}
	con := g.ContractOf(callee)
	onStack := false
	for _, s := range c.stack {
		if s == callee {
			onStack = true
		}
	}
	if con != nil && !con.Inline {
		return f.applyContract(callee, con, args, st, pos, name, resT)
	}
	if !onStack && len(callee.Blocks) > 0 && len(c.stack) < 6 && (con != nil || g.autoInlinable(callee)) {
		return f.inlineCall(callee, con, args, st, name, resT)
	}
	// havoc by inferred footprint
	ws := g.WriteSetOf(callee)
	if ws.Top {
		f.havocAll(st)
	} else {
		f.havocHeaps(st, ws.Sorted())
	}
	f.havocNext(st)
	c.warnings = append(c.warnings, fmt.Sprintf("%s: call to %s abstracted by inferred footprint (%d heaps, top=%v)", f.path, FuncKey(callee), len(ws.Names), ws.Top))
	return f.freshResult(resT, st, name)
}

func (g *Gen) autoInlinable(fn *ssa.Function) bool {
	n := 0
	for _, b := range fn.Blocks {
		n += len(b.Instrs)
	}
	if n > 600 {
		return false
	}
	if len(findLoops(fn)) > 0 {
		return false
	}
	return true
}

func (f *frame) inlineCall(callee *ssa.Function, con *Contract, args []Val, st *State, name string, resT types.Type) Val {
	c := f.c
	rets, _ := c.run(callee, args, st, f.path+">"+relName(callee), con, false)
	if len(rets) == 0 {
		// never returns (panics on all paths)
		st.reach = "false"
		return f.freshResult(resT, st, name)
	}
	var sts []*State
	for _, r := range rets {
		sts = append(sts, r.st)
	}
	merged := c.mergeStates(sts)
	*st = *merged
	nres := len(rets[0].vals)
	var outs []Val
	for i := 0; i < nres; i++ {
		if len(rets) == 1 {
			outs = append(outs, rets[0].vals[i])
			continue
		}
		allSame := true
		for _, r := range rets[1:] {
			if r.vals[i].T != rets[0].vals[i].T {
				allSame = false
			}
		}
		if allSame && rets[0].vals[i].T != "" {
			outs = append(outs, rets[0].vals[i])
			continue
		}
		t := rets[len(rets)-1].vals[i].T
		for k := len(rets) - 1; k >= 0; k-- {
			if rets[k].vals[i].T == "" {
				subsetf("inlined %s returns interior pointer on multiple paths", callee)
			}
		}
		for k := len(rets) - 2; k >= 0; k-- {
			t = fmt.Sprintf("(ite %s %s %s)", rets[k].st.reach, rets[k].vals[i].T, t)
		}
		rt := callee.Signature.Results().At(i).Type()
		n := c.define(name+"_r", c.g.TE.SortOf(rt), t)
		outs = append(outs, f.mkVal(n, rt))
	}
	switch nres {
	case 0:
		return Val{Typ: resT}
	case 1:
		return outs[0]
	}
	return Val{Tuple: outs, Typ: resT}
}

// resultEnv adds result names to a spec environment.
func resultEnv(env *SpecEnv, fn *ssa.Function, results []Val) {
	sig := fn.Signature
	n := sig.Results().Len()
	for i := 0; i < n && i < len(results); i++ {
		rv := sig.Results().At(i)
		sv := SV{Term: results[i].T, Typ: rv.Type()}
		env.Vars[fmt.Sprintf("result%d", i)] = sv
		if rv.Name() != "" && rv.Name() != "_" {
			if _, clash := env.Vars[rv.Name()]; !clash {
				env.Vars[rv.Name()] = sv
			}
		}
		if i == 0 {
			env.Vars["result"] = sv
		}
		if i == n-1 && isErrorType(rv.Type()) {
			env.Vars["err"] = sv
		}
	}
}

func isErrorType(t types.Type) bool {
	return types.Identical(t, types.Universe.Lookup("error").Type())
}

func (f *frame) applyContract(callee *ssa.Function, con *Contract, args []Val, st *State, pos token.Pos, name string, resT types.Type) Val {
	c := f.c
	g := c.g
	for i := range callee.Params {
		if i < len(args) && args[i].T == "" && args[i].Tuple == nil {
			subsetf("interior pointer passed to %s (argument %d)", FuncKey(callee), i)
		}
	}
	pre := st.clone()
	// instantiation of the callee's ghost constants requested by the caller's contract (rebind)
	rebound := map[string]string{}
	if f.con != nil {
		for _, rb := range f.con.Rebinds {
			if !strings.Contains(FuncKey(callee), rb.Callee) {
				continue
			}
			cenv := f.specEnv(st, nil, nil)
			for _, li := range f.loops {
				if li.entryNext != "" {
					cenv.Vars[fmt.Sprintf("#loopbound%d", li.ordinal)] = SV{Term: li.entryNext, Typ: types.Typ[types.Int]}
				}
			}
			rebound[rb.Ghost] = cenv.Eval(rb.Expr).Term
		}
	}
	mkEnv := func(cur *State) *SpecEnv {
		env := &SpecEnv{G: g, Pkg: callee.Pkg.Pkg, Vars: map[string]SV{}, Cur: cur, Old: pre, Next0: pre.next, FnScope: fnScope(callee)}
		for i, p := range callee.Params {
			env.Vars[p.Name()] = SV{Term: args[i].T, Typ: p.Type()}
		}
		for gname, gterm := range rebound {
			env.Vars[gname] = SV{Term: gterm, Typ: types.Typ[types.Int]}
		}
		return env
	}
	env := mkEnv(pre)
	for i, rq := range con.Requires {
		c.oblige(st, f.path, fmt.Sprintf("pre@%s#%d", relName(callee), i+1), env.Eval(rq.Expr).Term, "precondition of "+FuncKey(callee)+": "+rq.Text, pos)
	}
	// recursion: the measure must decrease
	if callee == c.top {
		if con.Decreases != nil {
			mCall := env.Eval(con.Decreases.Expr).Term
			e0 := &SpecEnv{G: g, Pkg: callee.Pkg.Pkg, Vars: map[string]SV{}, Cur: c.entry, Old: c.entry, Next0: c.entry.next, FnScope: fnScope(callee)}
			for i, p := range callee.Params {
				e0.Vars[p.Name()] = SV{Term: c.topArgs[i].T, Typ: p.Type()}
			}
			m0 := e0.Eval(con.Decreases.Expr).Term
			c.oblige(st, f.path, "decr-rec", fmt.Sprintf("(and (>= %s 0) (< %s %s))", m0, mCall, m0), "recursive call decreases "+con.Decreases.Text, pos)
		} else if con.Partial {
			// "partial": the contract is a partial-correctness statement (frame, safety, postconditions of the
			// calls that return); termination of the recursion is explicitly not claimed and is reported
			c.assumed["partial correctness only: termination of the self-recursive "+con.FullKey()+" is not shown (contract marked partial)"] = true
		} else {
			c.oblige(st, f.path, "decr-rec", "false", "recursive call without a decreases measure (termination not shown)", pos)
		}
	}
	// havoc
	if con.HasModifies {
		var hs []string
		for _, m := range con.Modifies {
			if m == "*" {
				f.havocAll(st)
				hs = nil
				break
			}
			hs = append(hs, g.resolveHeapSpec(callee.Pkg.Pkg, m)...)
		}
		if hs != nil || len(con.Modifies) == 0 || con.Modifies[0] != "*" {
			// ghost state (encoder/marshal/decoder/I-O sequences) is not nameable in a modifies clause: whatever
			// the callee's inferred write set says it may advance is havocked as well
			for _, h := range g.WriteSetOf(callee).Sorted() {
				if strings.HasPrefix(h, "G_ghost_") {
					hs = append(hs, h)
				}
			}
		}
		f.havocHeaps(st, hs)
		// builders: a contract with a modifies clause changes the content of the builders it lists (sb(...)) and of
		// no other builder that existed at the call
		sb := sbHeap(g)
		if a, b := pre.Heap(sb), st.Heap(sb); a != b && !(len(con.Modifies) > 0 && con.Modifies[0] == "*") {
			var keys []string
			for _, mb := range con.ModBuilders {
				keys = append(keys, env.sbKey(env.Eval(mb.Expr)))
			}
			c.assume(st, sbFrame(a, b, pre.next, keys))
		}
	} else {
		ws := g.WriteSetOf(callee)
		if ws.Top {
			f.havocAll(st)
		} else {
			f.havocHeaps(st, ws.Sorted())
		}
	}
	if !con.Pure {
		f.havocNext(st)
	}
	res := f.freshResult(resT, st, name)
	var results []Val
	if res.Tuple != nil {
		results = res.Tuple
	} else if callee.Signature.Results().Len() == 1 {
		results = []Val{res}
	}
	for _, em := range con.Emits {
		// ghost event: the call appends the value of em.Expr (evaluated in the pre-state) to the named sequence
		nH, sH := gseqHeaps(g, em.Seq)
		v := env.Eval(em.Expr)
		t := v.Term
		if !isIface(v.Typ) {
			t = g.makeIface(t, v.Typ)
		}
		n, sq := st.Heap(nH), st.Heap(sH)
		st.heaps[sH] = c.define("gseq", "(Array Int Iface)", fmt.Sprintf("(store %s %s %s)", sq, n, t))
		st.heaps[nH] = c.define("gseqn", SInt, fmt.Sprintf("(+ %s 1)", n))
		c.assumed[fmt.Sprintf("%s appends one event (%s) to the ghost sequence %q and nothing else (emits clause: assumed at call sites, the body writes to an external strings.Builder and is not checked against it)", con.FullKey(), em.Text, em.Seq)] = true
	}
	env2 := mkEnv(st)
	resultEnv(env2, callee, results)
	ignored := func(en Clause) bool {
		return c.contract != nil && len(c.contract.IgnoreEnsures) > 0 && mentionsCall(en.Expr, c.contract.IgnoreEnsures...)
	}
	for _, en := range con.Ensures {
		if ignored(en) {
			continue
		}
		c.assume(st, env2.Eval(en.Expr).Term)
	}
	if con.Trusted {
		c.assumed["trusted contract "+con.FullKey()] = true
	}
	if clausesMentionDeepcopy(con.Ensures) {
		// only facts about recursive types need the frame rule: look for one in the assumed postconditions
		rec := false
		for _, en := range con.Ensures {
			if ignored(en) {
				continue
			}
			if mentionsCall(en.Expr, "deepcopy", "deepcopyAbove") && c.mentionsRecursiveDcs(env2.Eval(en.Expr).Term) {
				rec = true
			}
		}
		if rec {
			c.recordSnap(st)
		}
	}
	return res
}

// ---- builtins ----

func (f *frame) builtin(bi *ssa.Builtin, cm *ssa.CallCommon, pos token.Pos, st *State, name string, resT types.Type) Val {
	c := f.c
	g := c.g
	arg := func(i int) Val { return f.val(cm.Args[i]) }
	switch bi.Name() {
	case "len":
		x := arg(0)
		switch cm.Args[0].Type().Underlying().(type) {
		case *types.Slice:
			return Val{T: c.define(name, SInt, "(slen "+x.T+")"), Typ: resT}
		case *types.Basic:
			return Val{T: c.define(name, SInt, "(Str_len "+x.T+")"), Typ: resT}
		case *types.Map:
			n := c.define(name, SInt, g.mapLen(cm.Args[0].Type(), x.T, st))
			return Val{T: n, Typ: resT}
		case *types.Pointer:
			at := cm.Args[0].Type().Underlying().(*types.Pointer).Elem().Underlying().(*types.Array)
			return Val{T: fmt.Sprint(at.Len()), Typ: resT}
		}
		subsetf("len of %s", cm.Args[0].Type())
	case "cap":
		x := arg(0)
		return Val{T: c.define(name, SInt, "(scap "+x.T+")"), Typ: resT}
	case "append":
		return f.doAppend(cm, pos, st, name)
	case "copy":
		return f.doCopy(cm, pos, st, name)
	case "delete":
		m, k := arg(0), arg(1)
		dom, _, _, _ := g.TE.MapHeaps(cm.Args[0].Type())
		// delete on nil map is a no-op
		cur := st.Heap(dom)
		if _, _, ks, _ := g.TE.MapHeaps(cm.Args[0].Type()); true {
			c.cardStep(st, ks, fmt.Sprintf("(select %s %s)", cur, m.T), k.T, false)
		}
		st.heaps[dom] = c.defineHeap(dom, fmt.Sprintf("(ite (= %s nil) %s (store %s %s (store (select %s %s) %s false)))", m.T, cur, cur, m.T, cur, m.T, k.T))
		return Val{Typ: resT}
	case "min", "max":
		x, y := arg(0), arg(1)
		op := "<="
		if bi.Name() == "max" {
			op = ">="
		}
		return Val{T: c.define(name, g.TE.SortOf(resT), fmt.Sprintf("(ite (%s %s %s) %s %s)", op, x.T, y.T, x.T, y.T)), Typ: resT}
	case "print", "println":
		return Val{Typ: resT}
	}
	subsetf("builtin %s", bi.Name())
	return Val{}
}

// moveDef builds the quantified definition of heap h2 from h1 for an append/copy.
func (f *frame) appendHeaps(st *State, et types.Type, s, t string, inplace string, newArr string, res string) {
	c := f.c
	n := fmt.Sprintf("(slen %s)", t)
	for _, h := range c.g.elemHeaps(et) {
		cur := st.Heap(h)
		nh := c.declare(h, c.g.TE.heapSort[h])
		srcT := fmt.Sprintf("(select %s (selem %s (- (eidx r) (+ (soff %s) (slen %s)))))", cur, t, s, s)
		// (in place the id reserved for a new array stays unused; its cells read as zero like any other spare cell)
		zero0 := c.g.heapZero(h)
		rest0 := fmt.Sprintf("(select %s r)", cur)
		if zero0 != "" {
			rest0 = fmt.Sprintf("(ite (and ((_ is elem) r) (= (earr r) %s)) %s (select %s r))", newArr, zero0, cur)
		}
		inpl := fmt.Sprintf("(ite (and ((_ is elem) r) (= (earr r) (sarr %s)) (<= (+ (soff %s) (slen %s)) (eidx r)) (< (eidx r) (+ (soff %s) (slen %s) %s))) %s %s)", s, s, s, s, s, n, srcT, rest0)
		srcS := fmt.Sprintf("(select %s (selem %s (eidx r)))", cur, s)
		srcT2 := fmt.Sprintf("(select %s (selem %s (- (eidx r) (slen %s))))", cur, t, s)
		// a new backing array: the copied cells, the appended cells, and zero everywhere else (Go zeroes the
		// spare capacity; cells beyond the capacity do not exist)
		zero := c.g.heapZero(h)
		rest := fmt.Sprintf("(select %s r)", cur)
		if zero != "" {
			rest = fmt.Sprintf("(ite (and ((_ is elem) r) (= (earr r) %s)) %s (select %s r))", newArr, zero, cur)
		}
		fresh := fmt.Sprintf("(ite (and ((_ is elem) r) (= (earr r) %s) (<= 0 (eidx r)) (< (eidx r) (slen %s))) %s (ite (and ((_ is elem) r) (= (earr r) %s) (<= (slen %s) (eidx r)) (< (eidx r) (+ (slen %s) %s))) %s %s))", newArr, s, srcS, newArr, s, s, n, srcT2, rest)
		c.assume(st, fmt.Sprintf("(forall ((r Ref)) (! (= (select %s r) (ite %s %s %s)) :pattern ((select %s r))))", nh, inplace, inpl, fresh, nh))
		// derived lemma (a consequence of the definition above in both branches, stated so that E-matching finds it
		// from a read of the RESULT slice): the first len(s) elements of the result are the elements of s.
		// Only for slices of single-cell elements (pointers, interfaces, scalars): a slice of structs has one heap per
		// leaf field; for those the in-place reference identity stated by doAppend is enough.
		if res != "" && !isStruct(et) {
			c.assume(st, fmt.Sprintf("(forall ((i Int)) (! (=> (and (<= 0 i) (< i (slen %s))) (= (select %s (selem %s i)) (select %s (selem %s i)))) :pattern ((selem %s i))))", s, nh, res, cur, s, res))
			// ... and the first appended element (ground instance: puts the term result[len(s)] into the E-graph)
			c.assume(st, fmt.Sprintf("(=> (< 0 %s) (= (select %s (selem %s (slen %s))) (select %s (selem %s 0))))", n, nh, res, s, cur, t))
		}
		st.heaps[h] = nh
	}
}

func (f *frame) doAppend(cm *ssa.CallCommon, pos token.Pos, st *State, name string) Val {
	c := f.c
	s := f.val(cm.Args[0])
	t := f.val(cm.Args[1])
	slT := cm.Args[0].Type()
	et := slT.Underlying().(*types.Slice).Elem()
	if isString(cm.Args[1].Type()) {
		// append([]byte, string...)
		r := f.freshResult(slT, st, name)
		c.assume(st, fmt.Sprintf("(= (slen %s) (+ (slen %s) (Str_len %s)))", r.T, s.T, t.T))
		f.havocHeaps(st, c.g.elemHeaps(et))
		return r
	}
	// fast path: appending zero elements of a nil constant
	n := fmt.Sprintf("(slen %s)", t.T)
	inplace := c.define("inplace", SBool, fmt.Sprintf("(<= (+ (slen %s) %s) (scap %s))", s.T, n, s.T))
	id := f.allocID(st)
	ncap := c.declare("ncap", SInt)
	c.assume(st, fmt.Sprintf("(>= %s (+ (slen %s) %s))", ncap, s.T, n))
	res := c.define(name, SSlice, fmt.Sprintf("(ite %s (mkslice (sarr %s) (soff %s) (+ (slen %s) %s) (scap %s)) (mkslice %s 0 (+ (slen %s) %s) %s))", inplace, s.T, s.T, s.T, n, s.T, id, s.T, n, ncap))
	// Go: append(nil, <empty>) returns nil; our model returns a non-nil empty slice in that case only
	// when cap is exceeded, which cannot happen for n = 0 (0 <= cap). Fine.
	f.tagAlloc(st, id, et)
	before := map[string]string{}
	for _, h := range c.g.elemHeaps(et) {
		before[h] = st.Heap(h)
	}
	facts := ""
	if f.c.contract != nil && f.c.contract.AppendFacts {
		facts = res // `//@ appendfacts`: additional prefix/first-element facts stated inside appendHeaps
	}
	f.appendHeaps(st, et, s.T, t.T, inplace, id, facts)
	// Consequences of the destination-indexed definition above, stated source-indexed so that E-matching has the terms
	// (an invariant over the elements of the operand, or an existential over positions of the result, otherwise finds no
	// instance): element i of the operand is element i of the result, and the first appended element is at index len(s).
	for _, h := range c.g.elemHeaps(et) {
		c.assume(st, fmt.Sprintf("(forall ((i Int)) (! (=> (and (<= 0 i) (< i (slen %s))) (= (select %s (selem %s i)) (select %s (selem %s i)))) :pattern ((selem %s i))))", s.T, st.Heap(h), res, before[h], s.T, s.T))
		c.assume(st, fmt.Sprintf("(=> (>= %s 1) (= (select %s (selem %s (slen %s))) (select %s (selem %s 0))))", n, st.Heap(h), res, s.T, before[h], t.T))
	}
	// the cells of the result named through the operand: in place they are the operand's cells (same array and
	// offset), otherwise cells of the new array; gives quantified facts about s[i] a term to match on r[i]
	c.assume(st, fmt.Sprintf("(forall ((i Int)) (! (= (selem %s i) (ite %s (selem %s i) (elem %s i))) :pattern ((selem %s i))))", res, inplace, s.T, id, res))
	return Val{T: res, Typ: slT}
}

func (f *frame) doCopy(cm *ssa.CallCommon, pos token.Pos, st *State, name string) Val {
	c := f.c
	d := f.val(cm.Args[0])
	s := f.val(cm.Args[1])
	et := cm.Args[0].Type().Underlying().(*types.Slice).Elem()
	if isString(cm.Args[1].Type()) {
		f.havocHeaps(st, c.g.elemHeaps(et))
		return f.freshResult(types.Typ[types.Int], st, name)
	}
	n := c.define(name, SInt, fmt.Sprintf("(ite (<= (slen %s) (slen %s)) (slen %s) (slen %s))", d.T, s.T, d.T, s.T))
	for _, h := range c.g.elemHeaps(et) {
		cur := st.Heap(h)
		nh := c.declare(h, c.g.TE.heapSort[h])
		src := fmt.Sprintf("(select %s (elem (sarr %s) (+ (soff %s) (- (eidx r) (soff %s)))))", cur, s.T, s.T, d.T)
		c.assume(st, fmt.Sprintf("(forall ((r Ref)) (! (= (select %s r) (ite (and ((_ is elem) r) (= (earr r) (sarr %s)) (<= (soff %s) (eidx r)) (< (eidx r) (+ (soff %s) %s))) %s (select %s r))) :pattern ((select %s r))))", nh, d.T, d.T, d.T, n, src, cur, nh))
		st.heaps[h] = nh
	}
	return Val{T: n, Typ: types.Typ[types.Int]}
}

// ---- interface method calls ----

func (f *frame) invoke(cm *ssa.CallCommon, pos token.Pos, st *State, resT types.Type, name string) Val {
	c := f.c
	recv := f.val(cm.Value)
	c.oblige(st, f.path, "safety:nil", fmt.Sprintf("(not (= (itag %s) 0))", recv.T), "method call on nil interface", pos)
	full := cm.Value.Type().String() + "." + cm.Method.Name()
	if h, ok := invokes[full]; ok {
		var args []Val
		for _, a := range cm.Args {
			args = append(args, f.val(a))
		}
		return h(f, cm, recv, args, st, name, resT, pos)
	}
	c.assumed["interface method "+full+": total, writes no modelled memory, result unconstrained"] = true
	return f.freshResult(resT, st, name)
}

// ---- defers ----

func (f *frame) runDefers(st *State, b *ssa.BasicBlock) {
	// collect defer sites in reverse program order (LIFO for straight-line registration)
	var ds []*ssa.Defer
	for d := range st.armed {
		ds = append(ds, d)
	}
	sort.Slice(ds, func(i, j int) bool {
		if ds[i].Block().Index != ds[j].Block().Index {
			return ds[i].Block().Index > ds[j].Block().Index
		}
		return instrIndex(ds[i]) > instrIndex(ds[j])
	})
	for _, d := range ds {
		armed := st.armed[d]
		if armed == "false" {
			continue
		}
		// conditional execution: run the call under reach ∧ armed, then merge with the unarmed state
		run := st.clone()
		run.reach = f.c.define("R", SBool, fmt.Sprintf("(and %s %s)", st.reach, armed))
		skip := st.clone()
		skip.reach = f.c.define("R", SBool, fmt.Sprintf("(and %s (not %s))", st.reach, armed))
		f.doCall(d.Common(), d.Pos(), run, b, nil)
		if armed == "true" {
			*st = *run
			st.reach = run.reach
		} else {
			m := f.c.mergeStates([]*State{run, skip})
			*st = *m
		}
		delete(st.armed, d)
	}
}

func instrIndex(in ssa.Instruction) int {
	for i, x := range in.Block().Instrs {
		if x == in {
			return i
		}
	}
	return -1
}

// ---- range over maps and strings ----

type rangeState struct {
	x    Val
	typ  types.Type
	seen string // name of the ghost heap holding the visited key set (maps)
	dom0 string // key set of the map when the range statement started
}

// seenHeap names the ghost "visited keys" set of a range-over-map statement.
func (g *Gen) seenHeap(in *ssa.Range) string {
	mt, ok := in.X.Type().Underlying().(*types.Map)
	if !ok {
		return ""
	}
	h := "G_ghost_seen_" + sanitize(FuncKey(in.Parent())) + "_" + in.Name()
	g.TE.noteHeapRaw(h, fmt.Sprintf("(Array %s Bool)", g.TE.SortOf(mt.Key())))
	return h
}

// seenSeqHeaps names the ghost production order of a range-over-map statement: how many keys have been produced,
// the j-th produced key and the position at which a key was produced. Pure bookkeeping of the executor (nothing is
// assumed about them): contracts relate them to seen(k) through their own loop invariants.
func (g *Gen) seenSeqHeaps(in *ssa.Range) (n, key, pos string) {
	mt, ok := in.X.Type().Underlying().(*types.Map)
	if !ok {
		return "", "", ""
	}
	base := sanitize(FuncKey(in.Parent())) + "_" + in.Name()
	ks := g.TE.SortOf(mt.Key())
	n, key, pos = "G_ghost_seenn_"+base, "G_ghost_seenkey_"+base, "G_ghost_seenpos_"+base
	g.TE.noteHeapRaw(n, SInt)
	g.TE.noteHeapRaw(key, fmt.Sprintf("(Array Int %s)", ks))
	g.TE.noteHeapRaw(pos, fmt.Sprintf("(Array %s Int)", ks))
	return
}

var rangeStates = map[*ssa.Range]*rangeState{}

func (f *frame) execRange(in *ssa.Range, st *State) {
	x := f.val(in.X)
	rs := &rangeState{x: x, typ: in.X.Type()}
	if mt, ok := in.X.Type().Underlying().(*types.Map); ok {
		g := f.c.g
		rs.seen = g.seenHeap(in)
		dom, _, ks, _ := g.TE.MapHeaps(in.X.Type())
		st.heaps[rs.seen] = fmt.Sprintf("((as const (Array %s Bool)) false)", ks)
		if nH, _, _ := g.seenSeqHeaps(in); nH != "" {
			st.heaps[nH] = "0"
		}
		rs.dom0 = f.c.declare("dom0", fmt.Sprintf("(Array %s Bool)", ks))
		f.c.emit(fmt.Sprintf("(assert (= %s (ite (= %s nil) ((as const (Array %s Bool)) false) (select %s %s))))", rs.dom0, x.T, ks, st.Heap(dom), x.T))
		_ = mt
	}
	rangeStates[in] = rs
	f.setVal(in, Val{T: "nil", Typ: in.Type()})
}

func (f *frame) execNext(in *ssa.Next, st *State) {
	c := f.c
	g := c.g
	rng, ok := in.Iter.(*ssa.Range)
	if !ok {
		subsetf("next on non-range")
	}
	rs := rangeStates[rng]
	if rs == nil {
		subsetf("next before range")
	}
	okv := c.declare(valName(in)+"_ok", SBool)
	tup := in.Type().(*types.Tuple)
	if in.IsString {
		k := c.declare(valName(in)+"_k", SInt)
		v := c.declare(valName(in)+"_v", SInt)
		c.assume(st, fmt.Sprintf("(=> %s (and (<= 0 %s) (< %s (Str_len %s))))", okv, k, k, rs.x.T))
		f.setVal(in, Val{Tuple: []Val{{T: okv, Typ: types.Typ[types.Bool]}, {T: k, Typ: tup.At(1).Type()}, {T: v, Typ: tup.At(2).Type()}}, Typ: in.Type()})
		return
	}
	mt := rs.typ.Underlying().(*types.Map)
	dom, val, ks, _ := g.TE.MapHeaps(rs.typ)
	k := c.declare(valName(in)+"_k", ks)
	seen := st.Heap(rs.seen)
	c.assume(st, fmt.Sprintf("(=> %s (and (not (= %s nil)) (select (select %s %s) %s) (not (select %s %s))))", okv, rs.x.T, st.Heap(dom), rs.x.T, k, seen, k))
	// Go: every entry present when the range started and not removed meanwhile is produced exactly once
	c.assume(st, fmt.Sprintf("(=> (not %s) (forall ((k %s)) (! (=> (and (select %s k) (not (= %s nil)) (select (select %s %s) k)) (select %s k)) :pattern ((select %s k)) :pattern ((select %s k)) :pattern ((select (select %s %s) k)))))", okv, ks, rs.dom0, rs.x.T, st.Heap(dom), rs.x.T, seen, seen, rs.dom0, st.Heap(dom), rs.x.T))
	st.heaps[rs.seen] = c.define("seen", fmt.Sprintf("(Array %s Bool)", ks), fmt.Sprintf("(ite %s (store %s %s true) %s)", okv, seen, k, seen))
	if nH, keyH, posH := g.seenSeqHeaps(rng); nH != "" {
		n, key, pos := st.Heap(nH), st.Heap(keyH), st.Heap(posH)
		st.heaps[keyH] = c.define("seenkey", fmt.Sprintf("(Array Int %s)", ks), fmt.Sprintf("(ite %s (store %s %s %s) %s)", okv, key, n, k, key))
		st.heaps[posH] = c.define("seenpos", fmt.Sprintf("(Array %s Int)", ks), fmt.Sprintf("(ite %s (store %s %s %s) %s)", okv, pos, k, n, pos))
		st.heaps[nH] = c.define("seenn", SInt, fmt.Sprintf("(ite %s (+ %s 1) %s)", okv, n, n))
		// Go: a range over a map that was not modified meanwhile produces each of its len(m) entries exactly once, so when
		// the iteration ends the number of produced keys is the size of the map (part of the range-over-map assumption)
		domNow := fmt.Sprintf("(ite (= %s nil) ((as const (Array %s Bool)) false) (select %s %s))", rs.x.T, ks, st.Heap(dom), rs.x.T)
		c.assume(st, fmt.Sprintf("(=> (and (not %s) (= %s %s)) (= %s (ite (= %s nil) 0 (%s %s))))", okv, domNow, rs.dom0, n, rs.x.T, g.cardUF(ks), rs.dom0))
	}
	c.assumed["range over a map produces every entry that was present when the loop started and is still present, exactly once, in arbitrary order, hence len(m) entries when the map is not modified meanwhile (Go spec); entries deleted and re-inserted during the loop are not modelled"] = true
	vterm := c.define(valName(in)+"_v", g.TE.SortOf(mt.Elem()), fmt.Sprintf("(select (select %s %s) %s)", st.Heap(val), rs.x.T, k))
	c.assume(st, c.wellFormed(vterm, mt.Elem(), st.next))
	c.assume(st, c.wellFormed(k, mt.Key(), st.next))
	f.setVal(in, Val{Tuple: []Val{{T: okv, Typ: types.Typ[types.Bool]}, f.mkVal(k, mt.Key()), f.mkVal(vterm, mt.Elem())}, Typ: in.Type()})
}


// mapLen is the term for len(m) of a map: the cardinality of its key set (uninterpreted, >= 0).
func (g *Gen) mapLen(mt types.Type, m string, view HeapView) string {
	dom, _, ks, _ := g.TE.MapHeaps(mt)
	name := g.cardUF(ks)
	return fmt.Sprintf("(ite (= %s nil) 0 (%s (select %s %s)))", m, name, view.Heap(dom), m)
}

// cardUF declares the cardinality function of key sets of sort ks with the facts that hold for every set
// (finite sets: the number of elements; infinite sets, which no Go map has: 1): it is >= 0, it is 0 exactly
// for the empty set. How it changes under insertion/removal is NOT an axiom (it is false for infinite sets):
// cardStep states it at the instructions that update a real -- finite -- Go map.
func (g *Gen) cardUF(ks string) string {
	name := "card_" + sanitize(ks)
	if _, ok := g.ufDecl[name]; !ok {
		g.UF(name, []string{fmt.Sprintf("(Array %s Bool)", ks)}, SInt)
		wit := "cardwit_" + sanitize(ks)
		g.UF(wit, []string{fmt.Sprintf("(Array %s Bool)", ks)}, ks)
		g.axioms = append(g.axioms, fmt.Sprintf("(assert (forall ((s (Array %s Bool))) (! (>= (%s s) 0) :pattern ((%s s)))))", ks, name, name))
		g.axioms = append(g.axioms, fmt.Sprintf("(assert (forall ((s (Array %s Bool))) (! (or (= (%s s) 0) (select s (%s s))) :pattern ((%s s)))))", ks, name, wit, name))
		g.axioms = append(g.axioms, fmt.Sprintf("(assert (forall ((s (Array %s Bool)) (k %s)) (! (=> (select s k) (>= (%s s) 1)) :pattern ((%s s) (select s k)))))", ks, ks, name, name))
		g.axioms = append(g.axioms, fmt.Sprintf("(assert (= (%s ((as const (Array %s Bool)) false)) 0))", name, ks))
	}
	return name
}

// cardStep: the key set of a Go map (finite) changes its size by one when a key is really added or removed.
// before/after are the key sets around `m[k] = v` (add) or `delete(m, k)`.
func (c *FnCtx) cardStep(st *State, ks, before, k string, add bool) {
	name := c.g.cardUF(ks)
	if add {
		c.assume(st, fmt.Sprintf("(= (%s (store %s %s true)) (ite (select %s %s) (%s %s) (+ (%s %s) 1)))", name, before, k, before, k, name, before, name, before))
	} else {
		c.assume(st, fmt.Sprintf("(= (%s (store %s %s false)) (ite (select %s %s) (- (%s %s) 1) (%s %s)))", name, before, k, before, k, name, before, name, before))
	}
	c.assumed["len of a map is the size of its key set: 0 for an empty map, +1 when m[k] = v adds a key, -1 when delete removes one (Go maps are finite)"] = true
}


// gseqHeaps: a named ghost event sequence (length, elements).
func gseqHeaps(g *Gen, name string) (n, seq string) {
	n, seq = "G_ghost_gseqn_"+sanitize(name), "G_ghost_gseq_"+sanitize(name)
	g.TE.noteHeapRaw(n, SInt)
	g.TE.noteHeapRaw(seq, "(Array Int Iface)")
	return
}


// embeddedExternalPointer: `&x.F` where x points to an object of a library type and F is an embedded struct of a
// library type (e.g. &readCloser.Reader handed to a function that wants a *zip.Reader). The callee sees the struct
// through the heaps of the field's own type, so the pointer must be a first-class reference: the interior key of
// (x, F). This is sound only if the caller never touches x.F.* through x (the flattened heaps of x's type would be a
// second, unrelated copy): any other access to field F of the same base value in the caller is outside the subset.
func (f *frame) embeddedExternalPointer(a ssa.Value, v Val) (string, bool) {
	fa, ok := a.(*ssa.FieldAddr)
	if !ok || v.LV == nil || v.LV.Base == "" || strings.HasPrefix(v.LV.Path, "G:") || strings.Contains(v.LV.Path, ".") {
		return "", false
	}
	bt, ok := fa.X.Type().Underlying().(*types.Pointer)
	if !ok {
		return "", false
	}
	bn, ok := bt.Elem().(*types.Named)
	if !ok || bn.Obj().Pkg() == nil || strings.HasPrefix(bn.Obj().Pkg().Path(), "github.com/zerx-lab/wordZero") {
		return "", false
	}
	st, ok := bn.Underlying().(*types.Struct)
	if !ok {
		return "", false
	}
	fld := st.Field(fa.Field)
	fn, ok := fld.Type().(*types.Named)
	if !ok || !isStruct(fld.Type()) || fn.Obj().Pkg() == nil || strings.HasPrefix(fn.Obj().Pkg().Path(), "github.com/zerx-lab/wordZero") {
		return "", false
	}
	if refs := fa.X.Referrers(); refs != nil {
		for _, r := range *refs {
			if o, ok := r.(*ssa.FieldAddr); ok && o != fa && o.Field == fa.Field {
				subsetf("field %s of a library object is both passed as a pointer and accessed directly in %s", fld.Name(), f.fn)
			}
		}
	}
	f.c.assumed["a pointer to a library struct embedded in a library object (&x."+fld.Name()+") is modelled as a reference of its own (the caller does not access the embedded struct through x: checked)"] = true
	return interiorKey(v.LV.Base, v.LV.Path), true
}
