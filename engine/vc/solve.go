package vc

import (
	"context"
	"fmt"
	"os"
	"os/exec"
	"path/filepath"
	"strings"
	"sync"
	"time"
)

// SolveResult is the outcome of one obligation.
type SolveResult struct {
	Obl     *Obligation
	Fn      string
	Status  string // unsat, sat, unknown, timeout, error
	Solver  string
	Seconds float64
	File    string
	Output  string
	Tried   []string
}

type solverSpec struct {
	name string
	args func(file string, timeoutS int) []string
}

var solvers = []solverSpec{
	{"z3-new", func(f string, t int) []string { return []string{"z3-new", fmt.Sprintf("-T:%d", t), "auto_config=false", f} }},
	{"z3", func(f string, t int) []string { return []string{"z3", fmt.Sprintf("-T:%d", t), f} }},
	{"cvc5", func(f string, t int) []string {
		return []string{"cvc5", fmt.Sprintf("--tlimit=%d", t*1000), "--full-saturate-quant", f}
	}},
	// the same z3 without its automatic configuration: pure E-matching on the given patterns; decides in
	// well under a second a class of frame/ownership chains on which the default configuration diverges
	{"z3-new-noauto", func(f string, t int) []string {
		return []string{"z3-new", fmt.Sprintf("-T:%d", t), "smt.auto_config=false", f}
	}},
}

var z3NoMBQI = solverSpec{"z3-new-ematch", func(f string, t int) []string {
	return []string{"z3-new", fmt.Sprintf("-T:%d", t), "smt.mbqi=false", f}
}}

// z3-new with its automatic configuration, for the stage-2 race. Stage 1 runs z3-new with auto_config=false:
// on these VCs (quantified heap axioms plus the Real field of the interface datatype) the automatic
// configuration diverges on goals that plain E-matching decides in milliseconds.
var z3NewAuto = solverSpec{"z3-new-auto", func(f string, t int) []string { return []string{"z3-new", fmt.Sprintf("-T:%d", t), f} }}

func runSolver(s solverSpec, file string, timeoutS int) (status string, out string, secs float64) {
	return runSolverCtx(context.Background(), s, file, timeoutS)
}

func runSolverCtx(parent context.Context, s solverSpec, file string, timeoutS int) (status string, out string, secs float64) {
	ctx, cancel := context.WithTimeout(parent, time.Duration(timeoutS+2)*time.Second)
	defer cancel()
	a := s.args(file, timeoutS)
	cmd := exec.CommandContext(ctx, a[0], a[1:]...)
	t0 := time.Now()
	bs, _ := cmd.CombinedOutput()
	secs = time.Since(t0).Seconds()
	out = string(bs)
	first := ""
	for _, ln := range strings.Split(out, "\n") {
		ln = strings.TrimSpace(ln)
		if ln == "sat" || ln == "unsat" || ln == "unknown" || ln == "timeout" {
			first = ln
			break
		}
	}
	switch first {
	case "unsat", "sat", "unknown":
		return first, out, secs
	case "timeout":
		return "timeout", out, secs
	}
	if ctx.Err() != nil {
		return "timeout", out, secs
	}
	if strings.Contains(out, "timeout") || strings.Contains(out, "interrupted") {
		return "timeout", out, secs
	}
	return "error", out, secs
}

// SolveAll discharges obligations with a pool of `par` concurrent solver processes.
// Stage 1: z3-new with a short timeout; stage 2: the remaining solvers raced with the full timeout.
func SolveAll(g *Gen, header string, results []*FnResult, outDir string, par int, timeoutS int, allSolvers bool) []*SolveResult {
	type job struct {
		r *FnResult
		o *Obligation
	}
	var jobs []job
	for _, r := range results {
		if r.header == "" {
			r.header = g.HeaderFor(r) // sequentially: HeaderFor touches shared generator state
		}
		for _, o := range r.Obls {
			jobs = append(jobs, job{r, o})
		}
	}
	out := make([]*SolveResult, len(jobs))
	os.MkdirAll(outDir, 0o755)
	sem := make(chan struct{}, par)
	var wg sync.WaitGroup
	for i, j := range jobs {
		wg.Add(1)
		go func(i int, j job) {
			defer wg.Done()
			sem <- struct{}{}
			file := filepath.Join(outDir, sanitizeFile(j.o.Name)+".smt2")
			os.WriteFile(file, []byte(g.ObligationSMT(header, j.r, j.o)), 0o644)
			sr := &SolveResult{Obl: j.o, Fn: j.r.Key, File: file}
			short := timeoutS
			if short > 1 {
				short = 1 // most obligations take z3-new a few hundredths of a second; everything else is raced below
			}
			if v := os.Getenv("GOVC_SHORT"); v != "" {
				fmt.Sscanf(v, "%d", &short)
			}
			// stage 1: z3-new in its default and in its plain E-matching configuration side by side (one pool
			// slot); the first "unsat" wins and stops the other
			type r1 struct {
				s    solverSpec
				st   string
				o    string
				secs float64
			}
			ctx1, cancel1 := context.WithCancel(context.Background())
			ch1 := make(chan r1, 2)
			// one process per pool slot in stage 1: the plain E-matching configuration decides almost everything that
			// is decidable quickly; the default configuration joins the race of stage 2 (GOVC_STAGE1=both|auto to compare)
			stage1 := []solverSpec{solvers[3]}
			switch os.Getenv("GOVC_STAGE1") {
			case "both":
				stage1 = []solverSpec{solvers[0], solvers[3]}
			case "auto":
				stage1 = []solverSpec{solvers[0]}
			}
			for _, s := range stage1 {
				go func(s solverSpec) {
					st, o, secs := runSolverCtx(ctx1, s, file, short)
					ch1 <- r1{s, st, o, secs}
				}(s)
			}
			var st, o string
			var secs float64
			for k := 0; k < len(stage1); k++ {
				r := <-ch1
				sr.Tried = append(sr.Tried, fmt.Sprintf("%s:%s:%.2fs", r.s.name, r.st, r.secs))
				if k == 0 || r.st == "unsat" || (r.st == "sat" && st != "unsat") {
					st, o, secs = r.st, r.o, r.secs
					sr.Status, sr.Solver, sr.Seconds, sr.Output = r.st, r.s.name, r.secs, r.o
				}
				if r.st == "unsat" && !allSolvers {
					break
				}
			}
			cancel1()
			_, _ = o, secs
			<-sem
			if st == "unsat" && !allSolvers {
				out[i] = sr
				return
			}
			if st == "sat" && !allSolvers {
				out[i] = sr
				return
			}
			// stage 2: race the others (and z3-new with the full timeout)
			type res struct {
				s    solverSpec
				st   string
				o    string
				secs float64
			}
			ch := make(chan res, 4)
			cands := []solverSpec{solvers[1], solvers[2]}
			if timeoutS > short {
				cands = append(cands, solvers[0], solvers[3])
			}
			rctx, rcancel := context.WithCancel(context.Background())
			defer rcancel()
			for _, s := range cands {
				go func(s solverSpec) {
					sem <- struct{}{}
					st, o, secs := "cancelled", "", 0.0
					if rctx.Err() == nil {
						st, o, secs = runSolverCtx(rctx, s, file, timeoutS)
						if rctx.Err() != nil && st != "unsat" && st != "sat" {
							st = "cancelled"
						}
					}
					<-sem
					ch <- res{s, st, o, secs}
				}(s)
			}
			agree := sr.Status == "unsat"
			for range cands {
				r := <-ch
				sr.Tried = append(sr.Tried, fmt.Sprintf("%s:%s:%.2fs", r.s.name, r.st, r.secs))
				if allSolvers {
					if r.st != "unsat" {
						agree = false
					}
					if r.st == "sat" || (r.st == "unsat" && sr.Status != "sat" && sr.Status != "unsat") {
						sr.Status, sr.Solver, sr.Seconds, sr.Output = r.st, r.s.name, r.secs, r.o
					}
					continue
				}
				if r.st == "unsat" || (r.st == "sat" && sr.Status != "unsat") {
					if sr.Status != "unsat" {
						sr.Status, sr.Solver, sr.Seconds, sr.Output = r.st, r.s.name, r.secs, r.o
					}
				}
				if r.st == "unsat" {
					rcancel() // the race is decided: stop the other solvers
				}
			}
			_ = agree
			out[i] = sr
		}(i, j)
	}
	wg.Wait()
	retryTimeouts(out, timeoutS)
	return out
}


// retryTimeouts gives obligations on which every solver ran out of time a second chance: solver time depends on
// the load of the machine, and a timeout must not be reported as a failed obligation just because sixteen
// solver processes (or other jobs) were competing for the cores. At most 40 of them are re-run, four at a time,
// with three times the timeout and all solvers raced. A genuine failure stays a failure; it only takes longer.
// NoRetry, when set (check: obligations recorded as known findings), names obligations whose time-out is expected: they are
// not given the second, three times longer chance.
var NoRetry func(oblName string) bool

// RetryHint, when set (check), gives the solver seconds the obligation's class needed when the baseline was written
// (classes decided in under half a second are not recorded). The second chance is sized by it: a class that is normally
// fast and is in the baseline gets the plain timeout again (a genuine failure is then reported sooner), a class known
// to be slow gets 25 times its recorded time (at least three times the timeout, at most 300 s), so that a loaded
// machine does not turn a slow proof into an alarm.
var RetryHint func(oblName string) (float64, bool)

func retryBudget(sr *SolveResult, timeoutS int) int {
	to := 3 * timeoutS
	if RetryHint != nil && sr.Obl != nil {
		if secs, ok := RetryHint(sr.Obl.Name); ok {
			if secs == 0 {
				return 2 * timeoutS
			}
			to = int(25 * secs)
			if to < 3*timeoutS {
				to = 3 * timeoutS
			}
			if to > 300 {
				to = 300
			}
		}
	}
	return to
}

func retryTimeouts(out []*SolveResult, timeoutS int) {
	var idx []int
	for i, r := range out {
		if r != nil && r.Status == "timeout" && NoRetry != nil && r.Obl != nil && NoRetry(r.Obl.Name) {
			continue
		}
		if r != nil && r.Status == "timeout" {
			if NoRetry != nil && r.Obl != nil && NoRetry(r.Obl.Name) {
				continue
			}
			idx = append(idx, i)
		}
	}
	if len(idx) == 0 || len(idx) > 40 {
		return
	}
	sem := make(chan struct{}, 4)
	var wg sync.WaitGroup
	for _, i := range idx {
		wg.Add(1)
		go func(sr *SolveResult) {
			defer wg.Done()
			sem <- struct{}{}
			defer func() { <-sem }()
			type res struct {
				s    solverSpec
				st   string
				o    string
				secs float64
			}
			ctx, cancel := context.WithCancel(context.Background())
			defer cancel()
			ch := make(chan res, len(solvers))
			for _, s := range solvers {
				go func(s solverSpec) {
					st, o, secs := runSolverCtx(ctx, s, sr.File, retryBudget(sr, timeoutS))
					ch <- res{s, st, o, secs}
				}(s)
			}
			for range solvers {
				r := <-ch
				if ctx.Err() != nil && r.st != "unsat" && r.st != "sat" {
					r.st = "cancelled"
				}
				sr.Tried = append(sr.Tried, fmt.Sprintf("retry-%s:%s:%.2fs", r.s.name, r.st, r.secs))
				if r.st == "unsat" && sr.Status != "unsat" {
					sr.Status, sr.Solver, sr.Seconds, sr.Output = r.st, r.s.name, r.secs, r.o
					cancel()
				}
			}
		}(out[i])
	}
	wg.Wait()
}

func sanitizeFile(s string) string {
	var b strings.Builder
	for _, r := range s {
		switch {
		case r >= 'a' && r <= 'z', r >= 'A' && r <= 'Z', r >= '0' && r <= '9', r == '_', r == '-', r == '.', r == '#', r == '@':
			b.WriteRune(r)
		default:
			b.WriteRune('_')
		}
	}
	return b.String()
}
