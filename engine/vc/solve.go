package vc

import (
	"context"
	"fmt"
	"os"
	"os/exec"
	"path/filepath"
	"strings"
	"sync"
	"time"
)

// SolveResult is the outcome of one obligation.
type SolveResult struct {
	Obl     *Obligation
	Fn      string
	Status  string // unsat, sat, unknown, timeout, error
	Solver  string
	Seconds float64
	File    string
	Output  string
	Tried   []string
}

type solverSpec struct {
	name string
	args func(file string, timeoutS int) []string
}

var solvers = []solverSpec{
	{"z3-new", func(f string, t int) []string { return []string{"z3-new", fmt.Sprintf("-T:%d", t), "auto_config=false", f} }},
	{"z3", func(f string, t int) []string { return []string{"z3", fmt.Sprintf("-T:%d", t), f} }},
	{"cvc5", func(f string, t int) []string {
		return []string{"cvc5", fmt.Sprintf("--tlimit=%d", t*1000), "--full-saturate-quant", f}
	}},
}

var z3NoMBQI = solverSpec{"z3-new-ematch", func(f string, t int) []string {
	return []string{"z3-new", fmt.Sprintf("-T:%d", t), "smt.mbqi=false", f}
}}

// z3-new with its automatic configuration, for the stage-2 race. Stage 1 runs z3-new with auto_config=false:
// on these VCs (quantified heap axioms plus the Real field of the interface datatype) the automatic
// configuration diverges on goals that plain E-matching decides in milliseconds.
var z3NewAuto = solverSpec{"z3-new-auto", func(f string, t int) []string { return []string{"z3-new", fmt.Sprintf("-T:%d", t), f} }}

func runSolver(s solverSpec, file string, timeoutS int) (status string, out string, secs float64) {
	return runSolverCtx(context.Background(), s, file, timeoutS)
}

// runSolverCtx: as runSolver; cancelling parent kills the solver process (reported as a timeout).
func runSolverCtx(parent context.Context, s solverSpec, file string, timeoutS int) (status string, out string, secs float64) {
	ctx, cancel := context.WithTimeout(parent, time.Duration(timeoutS+2)*time.Second)
	defer cancel()
	a := s.args(file, timeoutS)
	cmd := exec.CommandContext(ctx, a[0], a[1:]...)
	t0 := time.Now()
	bs, _ := cmd.CombinedOutput()
	secs = time.Since(t0).Seconds()
	out = string(bs)
	first := ""
	for _, ln := range strings.Split(out, "\n") {
		ln = strings.TrimSpace(ln)
		if ln == "sat" || ln == "unsat" || ln == "unknown" || ln == "timeout" {
			first = ln
			break
		}
	}
	switch first {
	case "unsat", "sat", "unknown":
		return first, out, secs
	case "timeout":
		return "timeout", out, secs
	}
	if ctx.Err() != nil {
		return "timeout", out, secs
	}
	if strings.Contains(out, "timeout") || strings.Contains(out, "interrupted") {
		return "timeout", out, secs
	}
	return "error", out, secs
}

// SolveAll discharges obligations with a pool of `par` concurrent solver processes.
// Stage 1: z3-new with a short timeout; stage 2: the remaining solvers raced with the full timeout.
func SolveAll(g *Gen, header string, results []*FnResult, outDir string, par int, timeoutS int, allSolvers bool) []*SolveResult {
	type job struct {
		r *FnResult
		o *Obligation
	}
	var jobs []job
	for _, r := range results {
		if r.header == "" {
			r.header = g.HeaderFor(r) // sequentially: HeaderFor touches shared generator state
		}
		for _, o := range r.Obls {
			jobs = append(jobs, job{r, o})
		}
	}
	out := make([]*SolveResult, len(jobs))
	os.MkdirAll(outDir, 0o755)
	sem := make(chan struct{}, par)
	var wg sync.WaitGroup
	for i, j := range jobs {
		wg.Add(1)
		go func(i int, j job) {
			defer wg.Done()
			sem <- struct{}{}
			file := filepath.Join(outDir, sanitizeFile(j.o.Name)+".smt2")
			os.WriteFile(file, []byte(g.ObligationSMT(header, j.r, j.o)), 0o644)
			sr := &SolveResult{Obl: j.o, Fn: j.r.Key, File: file}
			short := timeoutS
			if short > 5 {
				short = 5
			}
			// stage 0: E-matching only (no model-based instantiation), 1 s. On VCs with pattern-less quantifiers
			// z3's MBQI rounds can spend the whole stage-1 budget instantiating heap axioms although plain
			// E-matching closes the goal in a fraction of a second; everything this stage does not close goes
			// through the unchanged stages below.
			if !allSolvers {
				st0, o0, secs0 := runSolver(z3NoMBQI, file, 1)
				sr.Tried = append(sr.Tried, fmt.Sprintf("%s:%s:%.2fs", z3NoMBQI.name, st0, secs0))
				if st0 == "unsat" {
					sr.Status, sr.Solver, sr.Seconds, sr.Output = st0, z3NoMBQI.name, secs0, o0
					<-sem
					out[i] = sr
					return
				}
			}
			st, o, secs := runSolver(solvers[0], file, short)
			sr.Tried = append(sr.Tried, fmt.Sprintf("%s:%s:%.2fs", solvers[0].name, st, secs))
			sr.Status, sr.Solver, sr.Seconds, sr.Output = st, solvers[0].name, secs, o
			<-sem
			if st == "unsat" && !allSolvers {
				out[i] = sr
				return
			}
			if st == "sat" && !allSolvers {
				out[i] = sr
				return
			}
			// stage 2: race the others (and z3-new with the full timeout)
			type res struct {
				s    solverSpec
				st   string
				o    string
				secs float64
			}
			ch := make(chan res, 4)
			cands := []solverSpec{solvers[1], solvers[2]}
			cands = append(cands, z3NewAuto)
			if timeoutS > short {
				cands = append(cands, solvers[0])
			}
			// quick tier: the first unsat answer decides, the solvers still running are killed
			raceCtx, stopRace := context.WithCancel(context.Background())
			defer stopRace()
			for _, s := range cands {
				go func(s solverSpec) {
					sem <- struct{}{}
					st, o, secs := "timeout", "", 0.0
					if raceCtx.Err() == nil {
						st, o, secs = runSolverCtx(raceCtx, s, file, timeoutS)
					}
					<-sem
					ch <- res{s, st, o, secs}
				}(s)
			}
			agree := sr.Status == "unsat"
			for range cands {
				r := <-ch
				sr.Tried = append(sr.Tried, fmt.Sprintf("%s:%s:%.2fs", r.s.name, r.st, r.secs))
				if allSolvers {
					if r.st != "unsat" {
						agree = false
					}
					if r.st == "sat" || (r.st == "unsat" && sr.Status != "sat" && sr.Status != "unsat") {
						sr.Status, sr.Solver, sr.Seconds, sr.Output = r.st, r.s.name, r.secs, r.o
					}
					continue
				}
				if r.st == "unsat" || (r.st == "sat" && sr.Status != "unsat") {
					if sr.Status != "unsat" {
						sr.Status, sr.Solver, sr.Seconds, sr.Output = r.st, r.s.name, r.secs, r.o
					}
				}
				if sr.Status == "unsat" {
					stopRace()
				}
			}
			_ = agree
			out[i] = sr
		}(i, j)
	}
	wg.Wait()
	return out
}

func sanitizeFile(s string) string {
	var b strings.Builder
	for _, r := range s {
		switch {
		case r >= 'a' && r <= 'z', r >= 'A' && r <= 'Z', r >= '0' && r <= '9', r == '_', r == '-', r == '.', r == '#', r == '@':
			b.WriteRune(r)
		default:
			b.WriteRune('_')
		}
	}
	return b.String()
}
