package vc

import (
	"fmt"
	"go/constant"
	"go/token"
	"go/types"
	"sort"
	"strings"

	"golang.org/x/tools/go/ssa"
)

// State is the symbolic state at a program point.
type State struct {
	g     *Gen
	reach string
	heaps map[string]string
	next  string
	epoch int
	armed map[*ssa.Defer]string
	tagLo string // every id in [tagLo, next) carries no tag of a struct type the contracts mention (idtags.go); "" = unknown
	// merges: heap versions introduced at control-flow joins of this function, with the incoming (reach, version)
	// pairs they select from (shared by all states of one function; used to split frame goals per branch)
	merges map[string][]mergeBranch
}

type mergeBranch struct{ reach, heap string }

func (s *State) Heap(name string) string {
	if v, ok := s.heaps[name]; ok {
		return v
	}
	sym := fmt.Sprintf("%s@%d", name, s.epoch)
	s.g.noteHeapRef(sym, name)
	return sym
}
func (s *State) Next() string { return s.next }

func (s *State) clone() *State {
	n := &State{g: s.g, reach: s.reach, heaps: map[string]string{}, next: s.next, epoch: s.epoch, armed: map[*ssa.Defer]string{}, tagLo: s.tagLo, merges: s.merges}
	for k, v := range s.heaps {
		n.heaps[k] = v
	}
	for k, v := range s.armed {
		n.armed[k] = v
	}
	return n
}

// Val is the symbolic value of an SSA value.
type Val struct {
	T     string // SMT term (first-class); "" for pure lvalues
	LV    *LV    // for pointers into struct objects
	Tuple []Val
	Fn    *ssa.Function // function value (closure or func)
	Typ   types.Type
}

// Obligation is one proof obligation.
type Obligation struct {
	Name      string
	Kind      string
	Fn        string
	Pos       string
	Goal      string // must hold
	Reach     string
	PrefixLen int
	Desc      string
}

// FnCtx is the verification context of one top-level function.
type FnCtx struct {
	g        *Gen
	top      *ssa.Function
	contract *Contract
	constMapSpans []constMapSpan
	lines    []string
	obls     []*Obligation
	ctr      int
	oblCtr   map[string]int
	snaps    []*heapSnap     // heap versions at which deep-copy facts entered the VC (dcsframe.go)
	dcsDone  map[string]bool // frame-rule instances already emitted
	next0    string
	entry    *State
	assumed  map[string]bool // trusted/assumed things used
	reShapes map[string]*reShape // regexps compiled from a constant in this function (regexpmodel.go)
	warnings []string
	depth    int
	wfSet    map[string]bool
	topArgs  []Val
	freeVals map[*ssa.FreeVar]Val // captured variables of a function literal under contract: pointers to their cells
	stack    []*ssa.Function
}

// wantWF: are heap well-formedness axioms requested for heap h in this function?
func (c *FnCtx) wantWF(h string) bool {
	if c.g.WFAxioms {
		return true
	}
	if c.contract == nil || len(c.contract.WF) == 0 {
		return false
	}
	if c.wfSet == nil {
		c.wfSet = map[string]bool{}
		for _, m := range c.contract.WF {
			for _, hn := range c.g.resolveHeapSpec(c.top.Pkg.Pkg, m) {
				c.wfSet[hn] = true
			}
		}
	}
	return c.wfSet[h]
}

func (c *FnCtx) fresh(prefix string) string {
	c.ctr++
	return fmt.Sprintf("%s!%d", prefix, c.ctr)
}

func (c *FnCtx) emit(s string) { c.lines = append(c.lines, s) }

func (c *FnCtx) declare(prefix, sort string) string {
	n := c.fresh(prefix)
	c.emit(fmt.Sprintf("(declare-const %s %s)", n, sort))
	return n
}

func (c *FnCtx) define(prefix, sort, term string) string {
	if len(term) < 24 && !strings.ContainsAny(term, " ") {
		return term
	}
	n := c.fresh(prefix)
	c.emit(fmt.Sprintf("(define-fun %s () %s %s)", n, sort, term))
	return n
}

// defineHeap introduces a named heap version constrained by an equation (kept as a
// constant so that it can appear in quantifier patterns).
func (c *FnCtx) defineHeap(h, term string) string {
	n := c.fresh(h)
	c.emit(fmt.Sprintf("(declare-const %s %s)", n, c.g.TE.heapSort[h]))
	c.emit(fmt.Sprintf("(assert (= %s %s))", n, term))
	return n
}

func (c *FnCtx) assume(st *State, f string) {
	if f == "true" {
		return
	}
	if st.reach == "true" {
		c.emit("(assert " + f + ")")
	} else {
		c.emit(fmt.Sprintf("(assert (=> %s %s))", st.reach, f))
	}
}

func (c *FnCtx) oblName(path, kind string) string {
	k := path + ":" + kind
	if c.oblCtr == nil {
		c.oblCtr = map[string]int{}
	}
	c.oblCtr[k]++
	return fmt.Sprintf("%s#%d", k, c.oblCtr[k])
}

func (c *FnCtx) oblige(st *State, path, kind, goal, desc string, pos token.Pos) {
	if goal == "true" {
		return
	}
	if strings.HasPrefix(kind, "safety:") && c.contract != nil && c.contract.NoPanicAssumed && path == c.contract.FullKey() {
		// assume-no-panic: the check is assumed to pass (executions that panic are outside the claim)
		c.assume(st, goal)
		c.assumed["run-time checks (nil, index, slice bounds, ...) of "+c.contract.FullKey()+" are assumed to pass: its contract speaks about the executions that do not panic"] = true
		return
	}
	if st.tagLo != "" && st.tagLo != st.next && (strings.HasPrefix(kind, "post") || strings.HasPrefix(kind, "pre@") || strings.Contains(kind, "inv-")) && c.g.mentionsTags(goal) {
		c.emitTagFree(st)
	}
	if len(c.snaps) > 0 && (strings.HasPrefix(kind, "post") || strings.HasPrefix(kind, "pre@") || strings.Contains(kind, "inv-")) && c.mentionsRecursiveDcs(goal) {
		if c.dcsDone == nil {
			c.dcsDone = map[string]bool{}
		}
		c.emitDcsFrames(st)
	}
	o := &Obligation{Name: c.oblName(path, kind), Kind: kind, Fn: path, Goal: goal, Reach: st.reach, PrefixLen: len(c.lines), Desc: desc}
	if pos.IsValid() {
		p := c.g.Prog.Fset.Position(pos)
		o.Pos = fmt.Sprintf("%s:%d", shortFile(p.Filename), p.Line)
	}
	c.obls = append(c.obls, o)
	if strings.HasPrefix(kind, "safety:") && c.contract != nil && c.contract.CheckFacts {
		// the continuation runs only if the check passed (the obligation above does not see this assertion: PrefixLen)
		c.assume(st, goal)
	}
}

func shortFile(f string) string {
	if i := strings.Index(f, "/pkg/"); i >= 0 {
		return f[i+1:]
	}
	return f
}

// wellFormed returns the well-formedness assumption for a value of type t.
func (c *FnCtx) wellFormed(term string, t types.Type, next string) string {
	switch c.g.TE.SortOf(t) {
	case SRef:
		return fmt.Sprintf("(alloc %s %s)", term, next)
	case SSlice:
		return fmt.Sprintf("(slice_ok %s %s)", term, next)
	case SIface:
		return fmt.Sprintf("(iface_ok %s %s)", term, next)
	case SStr, SInt, SBool, SReal:
		return "true"
	}
	// struct value: conjunct over fields
	if st, ok := t.Underlying().(*types.Struct); ok {
		s := c.g.TE.SortOf(t)
		var parts []string
		for i := 0; i < st.NumFields(); i++ {
			f := st.Field(i)
			if _, isA := f.Type().Underlying().(*types.Array); isA {
				continue
			}
			w := c.wellFormed(fmt.Sprintf("(%s_%s %s)", s, f.Name(), term), f.Type(), next)
			if w != "true" {
				parts = append(parts, w)
			}
		}
		if len(parts) == 0 {
			return "true"
		}
		return "(and " + strings.Join(parts, " ") + ")"
	}
	return "true"
}

// frame is one activation (top-level or inlined) of a function.
type frame struct {
	c      *FnCtx
	fn     *ssa.Function
	path   string // obligation name path
	vals   map[ssa.Value]Val
	con    *Contract
	entry  *State // state at entry of this activation (for old())
	params []Val
	loops  []*loopInfo
	loopOf map[*ssa.BasicBlock]*loopInfo // header -> loop
	edge   map[[2]int]*State
	rets   []retRec
	isTop  bool
}

type retRec struct {
	vals []Val
	st   *State
	pos  token.Pos
}

type loopInfo struct {
	header *ssa.BasicBlock
	blocks map[*ssa.BasicBlock]bool
	back   []*ssa.BasicBlock // sources of back edges
	ordinal int
	spec   *LoopSpec
	hdrState *State
	hdrVals  map[ssa.Value]Val
	measure0 string
	entryNext string // allocation counter when the loop was entered (loopBound() in its invariants)
	preState  *State // state in which the loop was entered, before the havoc (loopentry(e) in its clauses)
	entryState *State // state in which the loop was entered (atLoop(n, e))
	iterNext  string // allocation counter at the loop head of the iteration being executed (iterBound(n))
}

func (c *FnCtx) subset(format string, a ...interface{}) { subsetf(format, a...) }

// findLoops computes natural loops of fn.
func findLoops(fn *ssa.Function) []*loopInfo {
	byHeader := map[*ssa.BasicBlock]*loopInfo{}
	var order []*loopInfo
	for _, b := range fn.Blocks {
		for _, s := range b.Succs {
			if s.Dominates(b) {
				li := byHeader[s]
				if li == nil {
					li = &loopInfo{header: s, blocks: map[*ssa.BasicBlock]bool{s: true}}
					byHeader[s] = li
					order = append(order, li)
				}
				li.back = append(li.back, b)
				// natural loop body
				stack := []*ssa.BasicBlock{b}
				for len(stack) > 0 {
					x := stack[len(stack)-1]
					stack = stack[:len(stack)-1]
					if li.blocks[x] {
						continue
					}
					li.blocks[x] = true
					for _, p := range x.Preds {
						stack = append(stack, p)
					}
				}
			}
		}
	}
	// order loops by the index of their header block: go/ssa creates blocks in source order (an outer
	// loop's header before the headers of the loops nested in it), also for range loops whose header
	// instructions carry no position
	sort.SliceStable(order, func(i, j int) bool {
		return order[i].header.Index < order[j].header.Index
	})
	for i, li := range order {
		li.ordinal = i + 1
	}
	return order
}

func loopPos(li *loopInfo) int {
	// smallest valid position among instructions in loop blocks
	best := int(^uint(0) >> 1)
	for b := range li.blocks {
		for _, in := range b.Instrs {
			if p := in.Pos(); p.IsValid() && int(p) < best {
				best = int(p)
			}
		}
	}
	return best
}

func topoOrder(fn *ssa.Function) []*ssa.BasicBlock {
	seen := map[*ssa.BasicBlock]bool{}
	var post []*ssa.BasicBlock
	var dfs func(b *ssa.BasicBlock)
	dfs = func(b *ssa.BasicBlock) {
		seen[b] = true
		for _, s := range b.Succs {
			if s.Dominates(b) { // back edge
				continue
			}
			if !seen[s] {
				dfs(s)
			}
		}
		post = append(post, b)
	}
	dfs(fn.Blocks[0])
	for i, j := 0, len(post)-1; i < j; i, j = i+1, j-1 {
		post[i], post[j] = post[j], post[i]
	}
	return post
}

// mergeStates joins edge states.
func (c *FnCtx) mergeStates(sts []*State) *State {
	if len(sts) == 1 {
		return sts[0].clone()
	}
	out := &State{g: c.g, heaps: map[string]string{}, armed: map[*ssa.Defer]string{}, epoch: sts[0].epoch, merges: sts[0].merges}
	mixed := false
	var rs []string
	for _, s := range sts {
		rs = append(rs, s.reach)
		if s.epoch != out.epoch {
			mixed = true
		}
	}
	out.reach = c.define("R", SBool, "(or "+strings.Join(rs, " ")+")")
	if mixed {
		// the incoming states went through different "havoc everything" points: nothing relates their heaps,
		// so the join knows nothing about memory either (sound over-approximation)
		c.ctr++
		out.epoch = c.ctr
		n := c.declare("next", SInt)
		for _, s := range sts {
			c.emit(fmt.Sprintf("(assert (=> %s (>= %s %s)))", s.reach, n, s.next))
		}
		out.next = n
		c.g.noteEpoch(out.epoch)
		c.emit(fmt.Sprintf("(assert (= wfnext@%d %s))", out.epoch, n))
		return out
	}
	names := map[string]bool{}
	for _, s := range sts {
		for k := range s.heaps {
			names[k] = true
		}
	}
	var ks []string
	for k := range names {
		ks = append(ks, k)
	}
	sort.Strings(ks)
	for _, k := range ks {
		same := true
		v0 := sts[0].Heap(k)
		for _, s := range sts[1:] {
			if s.Heap(k) != v0 {
				same = false
			}
		}
		if same {
			out.heaps[k] = v0
			continue
		}
		t := sts[len(sts)-1].Heap(k)
		for i := len(sts) - 2; i >= 0; i-- {
			t = fmt.Sprintf("(ite %s %s %s)", sts[i].reach, sts[i].Heap(k), t)
		}
		out.heaps[k] = c.defineHeap(k, t)
		if out.merges != nil {
			var bs []mergeBranch
			for _, s := range sts {
				bs = append(bs, mergeBranch{s.reach, s.Heap(k)})
			}
			out.merges[out.heaps[k]] = bs
		}
	}
	// next
	same := true
	for _, s := range sts[1:] {
		if s.next != sts[0].next {
			same = false
		}
	}
	if same {
		out.next = sts[0].next
	} else {
		t := sts[len(sts)-1].next
		for i := len(sts) - 2; i >= 0; i-- {
			t = fmt.Sprintf("(ite %s %s %s)", sts[i].reach, sts[i].next, t)
		}
		out.next = c.define("next", SInt, t)
	}
	// tag-free interval: per incoming path [tagLo_i, next_i); the join takes the path's own bounds
	sameLo, known := true, true
	for _, s := range sts {
		if s.tagLo != sts[0].tagLo {
			sameLo = false
		}
		if s.tagLo == "" {
			known = false
		}
	}
	switch {
	case !known:
		out.tagLo = ""
	case sameLo:
		out.tagLo = sts[0].tagLo
	default:
		t := sts[len(sts)-1].tagLo
		for i := len(sts) - 2; i >= 0; i-- {
			t = fmt.Sprintf("(ite %s %s %s)", sts[i].reach, sts[i].tagLo, t)
		}
		out.tagLo = c.define("taglo", SInt, t)
	}
	// defers
	dn := map[*ssa.Defer]bool{}
	for _, s := range sts {
		for k := range s.armed {
			dn[k] = true
		}
	}
	for d := range dn {
		var parts []string
		for _, s := range sts {
			a, ok := s.armed[d]
			if !ok {
				a = "false"
			}
			parts = append(parts, fmt.Sprintf("(and %s %s)", s.reach, a))
		}
		out.armed[d] = c.define("armed", SBool, "(or "+strings.Join(parts, " ")+")")
	}
	return out
}

// run executes fn's body symbolically from state st with argument values.
func (c *FnCtx) run(fn *ssa.Function, args []Val, st *State, path string, con *Contract, isTop bool) ([]retRec, *frame) {
	if len(fn.Blocks) == 0 {
		subsetf("function %s has no body", fn)
	}
	f := &frame{c: c, fn: fn, path: path, vals: map[ssa.Value]Val{}, con: con, entry: st.clone(), params: args,
		loopOf: map[*ssa.BasicBlock]*loopInfo{}, edge: map[[2]int]*State{}, isTop: isTop}
	for i, p := range fn.Params {
		f.vals[p] = args[i]
	}
	f.loops = findLoops(fn)
	for _, li := range f.loops {
		f.loopOf[li.header] = li
		if con != nil {
			li.spec = con.Loops[li.ordinal]
		}
	}
	c.stack = append(c.stack, fn)
	defer func() { c.stack = c.stack[:len(c.stack)-1] }()

	for _, b := range topoOrder(fn) {
		var in *State
		if b.Index == 0 {
			in = st.clone()
		} else {
			var sts []*State
			for _, p := range b.Preds {
				if b.Dominates(p) {
					continue // back edge
				}
				if es, ok := f.edge[[2]int{p.Index, b.Index}]; ok {
					sts = append(sts, es)
				}
			}
			if len(sts) == 0 {
				continue // unreachable
			}
			in = c.mergeStates(sts)
		}
		if li := f.loopOf[b]; li != nil {
			in = f.enterLoop(li, in)
		} else {
			f.doPhis(b, in)
		}
		f.execBlock(b, in)
	}
	return f.rets, f
}

// doPhis defines non-header phis as ite chains over incoming edges.
func (f *frame) doPhis(b *ssa.BasicBlock, in *State) {
	for _, instr := range b.Instrs {
		phi, ok := instr.(*ssa.Phi)
		if !ok {
			break
		}
		type inc struct {
			reach string
			v     Val
		}
		var incs []inc
		for i, p := range b.Preds {
			es, ok := f.edge[[2]int{p.Index, b.Index}]
			if !ok {
				continue
			}
			incs = append(incs, inc{es.reach, f.val(phi.Edges[i])})
		}
		if len(incs) == 0 {
			continue
		}
		// lvalue-only values cannot be merged unless identical
		allSame := true
		for _, x := range incs[1:] {
			if x.v.T != incs[0].v.T || !sameLV(x.v.LV, incs[0].v.LV) {
				allSame = false
			}
		}
		if allSame {
			f.vals[phi] = incs[0].v
			continue
		}
		for _, x := range incs {
			if x.v.T == "" {
				subsetf("phi over interior pointers in %s", f.fn)
			}
		}
		t := incs[len(incs)-1].v.T
		for i := len(incs) - 2; i >= 0; i-- {
			t = fmt.Sprintf("(ite %s %s %s)", incs[i].reach, incs[i].v.T, t)
		}
		name := f.c.define(valName(phi), f.c.g.TE.SortOf(phi.Type()), t)
		f.vals[phi] = f.mkVal(name, phi.Type())
	}
}

func sameLV(a, b *LV) bool {
	if a == nil || b == nil {
		return a == b
	}
	return a.Base == b.Base && a.Path == b.Path && types.Identical(a.Root, b.Root)
}

func valName(v ssa.Value) string {
	n := v.Name()
	if p, ok := v.(*ssa.Phi); ok && p.Comment != "" {
		n += "_" + sanitize(p.Comment)
	}
	return "v_" + n
}

// mkVal wraps a first-class term of Go type t.
func (f *frame) mkVal(term string, t types.Type) Val {
	v := Val{T: term, Typ: t}
	if st, ok := derefStruct(t); ok {
		v.LV = &LV{Root: st, Path: "", Base: term}
	}
	return v
}

// val returns the symbolic value of an SSA value.
func (f *frame) val(v ssa.Value) Val {
	if x, ok := f.vals[v]; ok {
		return x
	}
	switch v := v.(type) {
	case *ssa.Const:
		return f.constVal(v)
	case *ssa.Global:
		// pointer to a global: modelled as a pseudo lvalue
		return Val{T: "", Typ: v.Type(), LV: &LV{Root: nil, Path: "G:" + v.Pkg.Pkg.Name() + "." + v.Name(), Base: ""}}
	case *ssa.Function:
		return Val{T: "nil", Fn: v, Typ: v.Type()}
	case *ssa.FreeVar:
		if x, ok := f.c.freeVals[v]; ok && f.fn == f.c.top {
			return x
		}
		subsetf("free variable %s (closure body)", v.Name())
	case *ssa.Builtin:
		return Val{T: "nil", Typ: v.Type()}
	}
	subsetf("value %s (%T) used before definition in %s", v.Name(), v, f.fn)
	return Val{}
}

func (f *frame) constVal(k *ssa.Const) Val {
	g := f.c.g
	t := k.Type()
	if k.Value == nil {
		// zero value / nil
		return f.mkVal(g.TE.Zero(t), t)
	}
	switch k.Value.Kind() {
	case constant.Bool:
		return Val{T: fmt.Sprint(constant.BoolVal(k.Value)), Typ: t}
	case constant.String:
		return Val{T: g.StrLit(constant.StringVal(k.Value)), Typ: t}
	case constant.Int:
		if isReal(t) {
			return Val{T: realLit(constant.ToFloat(k.Value)), Typ: t}
		}
		s := k.Value.ExactString()
		if strings.HasPrefix(s, "-") {
			s = "(- " + s[1:] + ")"
		}
		return Val{T: s, Typ: t}
	case constant.Float:
		if b, ok := t.Underlying().(*types.Basic); ok && b.Info()&types.IsInteger != 0 {
			s := constant.ToInt(k.Value).ExactString()
			if strings.HasPrefix(s, "-") {
				s = "(- " + s[1:] + ")"
			}
			return Val{T: s, Typ: t}
		}
		return Val{T: realLit(k.Value), Typ: t}
	}
	subsetf("constant %s", k)
	return Val{}
}

// ---- memory access ----

// load reads the value a pointer Val points to. elem is the pointee type.
func (f *frame) load(p Val, elem types.Type, st *State) string {
	g := f.c.g
	if p.LV != nil && strings.HasPrefix(p.LV.Path, "G:") {
		h := f.globalHeap(p.LV.Path, elem)
		t := st.Heap(h)
		gname := strings.TrimPrefix(p.LV.Path, "G:")
		stdSentinel := gname == "io.EOF" || gname == "io.ErrUnexpectedEOF"
		if stdSentinel {
			// sentinel errors of the standard library: package-level variables initialised with errors.New and never reassigned
			f.c.assumed["the standard library's sentinel error "+gname+" is a non-nil error value"] = true
		}
		if stdSentinel || g.constNonNilGlobal(gname) {
			switch g.TE.SortOf(elem) {
			case SIface:
				f.c.assume(st, fmt.Sprintf("(not (= (itag %s) 0))", t))
			case SRef:
				f.c.assume(st, fmt.Sprintf("(not (= %s nil))", t))
			}
		}
		return t
	}
	if p.LV != nil {
		return g.LoadLoc(p.LV, st)
	}
	if p.T == "" {
		subsetf("load through unmodelled pointer")
	}
	if isStruct(elem) {
		return g.LoadLoc(&LV{Root: elem, Path: "", Base: p.T}, st)
	}
	if at, isArr := elem.Underlying().(*types.Array); isArr {
		if strings.HasPrefix(p.T, "(obj ") {
			// an array variable (its cells live in the element heap at elem(id, k)): collect them into a value
			if at.Len() > 16 {
				subsetf("load of a large array value")
			}
			v := f.c.declare("arrval", g.TE.SortOf(elem))
			eh := g.TE.CellHeap(at.Elem())
			for k := 0; k < int(at.Len()); k++ {
				f.c.assume(st, fmt.Sprintf("(= (select %s %d) (select %s (elem (oid %s) %d)))", v, k, st.Heap(eh), p.T, k))
			}
			return v
		}
		// an array stored as one cell (element of a slice of arrays)
	}
	h := g.TE.CellHeap(elem)
	return fmt.Sprintf("(select %s %s)", st.Heap(h), p.T)
}

func (f *frame) globalHeap(path string, elem types.Type) string {
	pn := strings.TrimPrefix(path, "G:")
	i := strings.Index(pn, ".")
	if isStruct(elem) {
		subsetf("struct-typed global %s", pn)
	}
	return f.c.g.TE.GlobalHeap(pn[:i], pn[i+1:], elem)
}

// storeHeap writes heap h at ref := v in state st.
func (f *frame) storeHeap(st *State, h, ref, v string) {
	cur := st.Heap(h)
	st.heaps[h] = f.c.defineHeap(h, fmt.Sprintf("(store %s %s %s)", cur, ref, v))
}

// store writes value term v (of type elem) through pointer p.
func (f *frame) store(p Val, elem types.Type, v string, st *State) {
	g := f.c.g
	if p.LV != nil && strings.HasPrefix(p.LV.Path, "G:") {
		h := f.globalHeap(p.LV.Path, elem)
		st.heaps[h] = v
		return
	}
	var lv *LV
	if p.LV != nil {
		lv = p.LV
	} else if isStruct(elem) {
		if p.T == "" {
			subsetf("store through unmodelled pointer")
		}
		lv = &LV{Root: elem, Path: "", Base: p.T}
	}
	if lv != nil {
		t := typeAtPath(lv.Root, lv.Path)
		if isStruct(t) {
			for _, la := range g.leafAccess(t, v) {
				h := g.TE.FieldHeap(lv.Root, joinPath(lv.Path, la.path), la.sort)
				f.storeHeap(st, h, lv.Base, la.term)
			}
			return
		}
		h := g.TE.FieldHeap(lv.Root, lv.Path, g.TE.SortOf(t))
		f.storeHeap(st, h, lv.Base, v)
		return
	}
	if p.T == "" {
		subsetf("store through unmodelled pointer")
	}
	if at, isArr := elem.Underlying().(*types.Array); isArr && strings.HasPrefix(p.T, "(obj ") {
		if at.Len() > 16 {
			subsetf("store of a large array value")
		}
		eh := g.TE.CellHeap(at.Elem())
		for k := 0; k < int(at.Len()); k++ {
			f.storeHeap(st, eh, fmt.Sprintf("(elem (oid %s) %d)", p.T, k), fmt.Sprintf("(select %s %d)", v, k))
		}
		return
	}
	h := g.TE.CellHeap(elem)
	f.storeHeap(st, h, p.T, v)
}

type leafAcc struct {
	path, term, sort string
	typ              types.Type
}

// leafAccess lists the leaves of struct value term v of type t with accessor terms.
func (g *Gen) leafAccess(t types.Type, v string) []leafAcc {
	s := g.TE.SortOf(t)
	st := t.Underlying().(*types.Struct)
	var out []leafAcc
	for i := 0; i < st.NumFields(); i++ {
		fl := st.Field(i)
		if _, isA := fl.Type().Underlying().(*types.Array); isA {
			continue
		}
		acc := fmt.Sprintf("(%s_%s %s)", s, fl.Name(), v)
		if isStruct(fl.Type()) {
			for _, sub := range g.leafAccess(fl.Type(), acc) {
				sub.path = joinPath(fl.Name(), sub.path)
				out = append(out, sub)
			}
			continue
		}
		out = append(out, leafAcc{path: fl.Name(), term: acc, sort: g.TE.SortOf(fl.Type()), typ: fl.Type()})
	}
	return out
}

// elemHeaps returns the heaps holding elements of a slice with element type et.
func (g *Gen) elemHeaps(et types.Type) []string {
	if isStruct(et) {
		return g.TE.StructHeaps(et)
	}
	return []string{g.TE.CellHeap(et)}
}

// allocID allocates a fresh object/array id.
func (f *frame) allocID(st *State) string {
	// a declared constant (not a macro), so that it can appear inside quantifier patterns
	id := f.c.declare("a", SInt)
	f.c.emit(fmt.Sprintf("(assert (= %s %s))", id, st.next))
	st.next = f.c.define("next", SInt, fmt.Sprintf("(+ %s 1)", id))
	return id
}

// zeroInitObj assumes all leaves of a fresh struct object (or cell) are zero.
func (f *frame) zeroInitObj(st *State, ref string, t types.Type) {
	g := f.c.g
	if isStruct(t) {
		for _, l := range g.TE.Leaves(t, "") {
			h := g.TE.FieldHeap(t, l.Path, l.Sort)
			f.c.assume(st, fmt.Sprintf("(= (select %s %s) %s)", st.Heap(h), ref, g.TE.Zero(l.Type)))
		}
		return
	}
	h := g.TE.CellHeap(t)
	f.c.assume(st, fmt.Sprintf("(= (select %s %s) %s)", st.Heap(h), ref, g.TE.Zero(t)))
}

// zeroInitArr assumes elements [0,n) of fresh array id are zero.
// idTagUF: ghost "type of the object or array with this allocation id" (the tag of the struct type of the
// object / of the array's elements). Assumed at the allocation sites of the function being verified; for
// ids handed out during a call the inferred allocation set of the callee bounds the possible tags.
func (g *Gen) idTagUF() string { return g.UF("idtag", []string{SInt}, SInt) }

// tagAlloc records the element/object type of a fresh allocation id.
func (f *frame) tagAlloc(st *State, id string, t types.Type) { f.tagAllocKind(st, id, t, true) }

// tagAllocKind: arrays of T carry the tag of T, single objects of T its negation (a reference into an
// object id is not a cell of an array of T).
func (f *frame) tagAllocKind(st *State, id string, t types.Type, array bool) {
	g := f.c.g
	tag := 0 // anything that is not a named struct type (maps, strings' bytes, interface arrays, ...)
	if _, ok := t.(*types.Named); ok && isStruct(t) {
		tag = g.TE.Tag(t)
		if !array {
			tag = -tag
		}
	}
	// under the path condition: allocations on mutually exclusive paths may receive the same id
	f.c.assume(st, fmt.Sprintf("(= (%s %s) %s)", g.idTagUF(), id, smtInt(tag)))
	if tag > 0 {
		if _, mentioned := g.tagTypes()[g.TE.TypeName(t)]; mentioned {
			st.tagLo = st.next // an array of a mentioned struct type: the tag-free interval restarts after it
		}
	}
}

func smtInt(n int) string {
	if n < 0 {
		return fmt.Sprintf("(- %d)", -n)
	}
	return fmt.Sprint(n)
}

func (f *frame) zeroInitArr(st *State, arr string, et types.Type, n string, constN int) {
	g := f.c.g
	f.tagAlloc(st, arr, et)
	if constN >= 0 && constN <= 4 {
		for i := 0; i < constN; i++ {
			f.zeroInitObj(st, fmt.Sprintf("(elem %s %d)", arr, i), et)
		}
		if isStruct(et) {
			// the cells outside the array do not exist; giving them the zero value keeps statements that
			// quantify over all cells of an array id meaningful
			for _, l := range g.TE.Leaves(et, "") {
				h := g.TE.FieldHeap(et, l.Path, l.Sort)
				f.c.assume(st, fmt.Sprintf("(forall ((i Int)) (! (=> (or (< i 0) (>= i %d)) (= (select %s (elem %s i)) %s)) :pattern ((select %s (elem %s i)))))", constN, st.Heap(h), arr, g.TE.Zero(l.Type), st.Heap(h), arr))
			}
		}
		return
	}
	if isStruct(et) {
		for _, l := range g.TE.Leaves(et, "") {
			h := g.TE.FieldHeap(et, l.Path, l.Sort)
			f.c.assume(st, fmt.Sprintf("(forall ((i Int)) (! (= (select %s (elem %s i)) %s) :pattern ((select %s (elem %s i)))))", st.Heap(h), arr, g.TE.Zero(l.Type), st.Heap(h), arr))
		}
		return
	}
	h := g.TE.CellHeap(et)
	f.c.assume(st, fmt.Sprintf("(forall ((i Int)) (! (= (select %s (elem %s i)) %s) :pattern ((select %s (elem %s i)))))", st.Heap(h), arr, g.TE.Zero(et), st.Heap(h), arr))
}

// wfHeapAxiom: every reference, slice and interface stored in heap term h (of the given
// array sort) denotes allocated memory (ids below next). This is an invariant of every
// reachable Go state in the allocation-counter model.
func wfHeapAxiom(h, fullSort, next string) string {
	wf := func(sort, term string) string {
		switch sort {
		case SRef:
			return fmt.Sprintf("(alloc %s %s)", term, next)
		case SSlice:
			return fmt.Sprintf("(slice_ok %s %s)", term, next)
		case SIface:
			return fmt.Sprintf("(iface_ok %s %s)", term, next)
		}
		return ""
	}
	if !strings.HasPrefix(fullSort, "(Array Ref ") {
		return ""
	}
	inner := strings.TrimSuffix(strings.TrimPrefix(fullSort, "(Array Ref "), ")")
	if !strings.HasPrefix(inner, "(") {
		w := wf(inner, fmt.Sprintf("(select %s r)", h))
		if w == "" {
			return ""
		}
		// only for allocated r: what a heap version holds at a not-yet-allocated reference is junk, and it is
		// exactly there that a callee with "modifies nothing" puts the fields of the objects it allocates
		// (the caller keeps the heap version); demanding allocated contents there contradicted every
		// postcondition that returns a fresh object with fresh sub-objects and made such paths vacuous
		return fmt.Sprintf("(assert (forall ((r Ref)) (! (=> (alloc r %s) %s) :pattern ((select %s r)))))", next, w, h)
	}
	// map value heap: (Array K V)
	if strings.HasPrefix(inner, "(Array ") {
		kv := strings.Fields(strings.TrimSuffix(strings.TrimPrefix(inner, "(Array "), ")"))
		if len(kv) == 2 {
			w := wf(kv[1], fmt.Sprintf("(select (select %s r) k)", h))
			if w == "" {
				return ""
			}
			return fmt.Sprintf("(assert (forall ((r Ref) (k %s)) (! (=> (alloc r %s) %s) :pattern ((select (select %s r) k)))))", kv[0], next, w, h)
		}
	}
	return ""
}

// havocHeaps replaces the listed heaps by fresh constants (well-formed w.r.t. a new allocation counter).
func (f *frame) havocHeaps(st *State, names []string) {
	if len(names) == 0 {
		return
	}
	f.havocNext(st)
	for _, h := range names {
		if _, ok := f.c.g.TE.heapSort[h]; !ok {
			continue
		}
		n := f.c.declare(h, f.c.g.TE.heapSort[h])
		st.heaps[h] = n
		if ax := wfHeapAxiom(n, f.c.g.TE.heapSort[h], st.next); ax != "" && f.c.wantWF(h) {
			f.c.emit(ax)
		}
	}
}

func (f *frame) havocAll(st *State) {
	f.havocNext(st)
	f.c.ctr++
	st.epoch = f.c.ctr
	st.heaps = map[string]string{}
	f.c.g.noteEpoch(st.epoch)
	f.c.emit(fmt.Sprintf("(assert (= wfnext@%d %s))", st.epoch, st.next))
}

func (f *frame) havocNext(st *State) {
	n := f.c.declare("next", SInt)
	f.c.assume(st, fmt.Sprintf("(>= %s %s)", n, st.next))
	st.next = n
}

// heapZero: the zero value of the cells of heap h (leaf sorts only; "" when the cell sort is not a leaf sort).
func (g *Gen) heapZero(h string) string {
	s := g.TE.heapSort[h]
	if !strings.HasPrefix(s, "(Array Ref ") {
		return ""
	}
	inner := strings.TrimSuffix(strings.TrimPrefix(s, "(Array Ref "), ")")
	switch inner {
	case SInt, SBool, SReal, SStr, SRef, SSlice, SIface:
		return g.TE.ZeroOfSort(inner, nil)
	}
	return ""
}
