package vc

import (
	"fmt"
	"go/types"
	"strings"
)

var intType = types.Typ[types.Int]

// Spec-level access to the executor's model of fmt.Sprintf for the two formats whose model is a fixed
// symbol: "%d" (itoa) and "<prefix>%d" (one uninterpreted function per format, injective in the integer).
// sprintf("rId%d", n) in a contract is the very term extSprintf builds for fmt.Sprintf("rId%d", n) with an
// int-typed n, so contracts can name the strings the code produces.

// prefixDFormat reports whether format is "<prefix>%d" (exactly one verb, at the end).
func prefixDFormat(format string) (prefix string, ok bool) {
	if strings.HasSuffix(format, "%d") && strings.Count(format, "%") == 1 && format != "%d" {
		return format[:len(format)-2], true
	}
	return "", false
}

// sprintfPrefixD declares the symbol (and injectivity axiom) of a "<prefix>%d" format exactly as extSprintf does.
func (g *Gen) sprintfPrefixD(format string) string {
	uf := g.UF(fmt.Sprintf("sprintf_%s_%d", g.StrLit(format), 1), []string{SIface}, SStr)
	ax := fmt.Sprintf("(assert (forall ((a Iface) (b Iface)) (! (=> (= (%s a) (%s b)) (= (iint a) (iint b))) :pattern ((%s a) (%s b)))))", uf, uf, uf, uf)
	for _, a := range g.axioms {
		if a == ax {
			return uf
		}
	}
	g.axioms = append(g.axioms, ax)
	return uf
}

func (e *SpecEnv) evalSprintf(x SCall) SV {
	if len(x.Args) != 2 {
		e.fail("sprintf in specs takes a format literal and one integer argument")
	}
	lit, ok := x.Args[0].(SStrLit)
	if !ok {
		e.fail("sprintf wants a string literal format")
	}
	v := e.Eval(x.Args[1])
	if !isInt(v.Typ) {
		e.fail("sprintf in specs: integer argument expected, got %v", v.Typ)
	}
	strT := e.Eval(SStrLit{""}).Typ
	if lit.V == "%d" {
		return SV{Term: "(itoa " + v.Term + ")", Typ: strT}
	}
	if _, ok := prefixDFormat(lit.V); !ok {
		e.fail("sprintf in specs: only \"%%d\" and \"<prefix>%%d\" formats have a fixed symbol (got %q)", lit.V)
	}
	uf := e.G.sprintfPrefixD(lit.V)
	return SV{Term: fmt.Sprintf("(%s %s)", uf, e.G.makeIface(v.Term, v.Typ)), Typ: strT}
}

// prefixDLiteralFacts: for every "<prefix>%d" symbol and every string literal "<prefix><k>" (k a canonical
// non-negative decimal) that a VC mentions, the instance fmt.Sprintf("<prefix>%d", k) == "<prefix><k>".
// Together with injectivity this separates generated names from literal ones ("rId1" is never produced for n >= 2).
func (g *Gen) prefixDLiteralFacts(has func(string) bool) (out []string) {
	byName := map[string]string{}
	for s, n := range g.strLits {
		byName[n] = s
	}
	intTag := -1
	for _, n := range g.ufOrder {
		if !has(n) || !strings.HasPrefix(n, "sprintf_") || !strings.HasSuffix(n, "_1") {
			continue
		}
		format, ok := byName[n[len("sprintf_"):len(n)-2]]
		if !ok {
			continue
		}
		prefix, ok := prefixDFormat(format)
		if !ok {
			continue
		}
		for _, s := range g.strOrder {
			if !has(g.strLits[s]) || !strings.HasPrefix(s, prefix) || !isDecimal(s[len(prefix):]) {
				continue
			}
			if intTag < 0 {
				intTag = g.TE.Tag(intType)
			}
			out = append(out, fmt.Sprintf("(assert (= (%s (mkiface %d nil %s str_empty false 0.0 (mkslice 0 0 0 0))) %s)) ; Sprintf(%q, %s) = %q",
				n, intTag, s[len(prefix):], g.strLits[s], format, s[len(prefix):], s))
		}
	}
	return
}
