package vc

import (
	"fmt"
	"go/constant"
	"go/token"
	"sort"
	"strings"

	"golang.org/x/tools/go/ssa"
	"golang.org/x/tools/go/ssa/ssautil"
)

func init() {
	staticChecks["regexp-verbatim-repl"] = staticRegexpVerbatimRepl
}

// expandingRegexpCalls: methods of *regexp.Regexp whose replacement argument is a TEMPLATE ("$1", "${name}",
// "$$"), not a literal string; index of that argument among the call's arguments (receiver = 0).
var expandingRegexpCalls = map[string]int{
	"(*regexp.Regexp).ReplaceAllString": 2,
	"(*regexp.Regexp).ReplaceAll":       2,
	"(*regexp.Regexp).Expand":           2,
	"(*regexp.Regexp).ExpandString":     2,
}

// dollarFree: the value provably contains no '$' that package regexp would expand: a constant without '$',
// the result of strings.ReplaceAll(x, "$", "$$") (the documented way of quoting a replacement), or the
// decimal/boolean formatting of a number (strconv.Itoa, strconv.FormatBool, strconv.FormatInt).
func dollarFree(v ssa.Value, depth int) bool {
	if depth > 4 {
		return false
	}
	switch v := v.(type) {
	case *ssa.Const:
		return v.Value != nil && v.Value.Kind() == constant.String && !strings.Contains(constant.StringVal(v.Value), "$")
	case *ssa.Convert:
		return dollarFree(v.X, depth+1)
	case *ssa.ChangeType:
		return dollarFree(v.X, depth+1)
	case *ssa.Phi:
		for _, e := range v.Edges {
			if !dollarFree(e, depth+1) {
				return false
			}
		}
		return true
	case *ssa.Call:
		sc := v.Common().StaticCallee()
		if sc == nil {
			return false
		}
		switch sc.String() {
		case "strconv.Itoa", "strconv.FormatBool", "strconv.FormatInt", "strconv.FormatUint":
			return true
		case "strings.ReplaceAll":
			a := v.Common().Args
			o, ok1 := a[1].(*ssa.Const)
			n, ok2 := a[2].(*ssa.Const)
			return ok1 && ok2 && o.Value != nil && n.Value != nil && constant.StringVal(o.Value) == "$" && constant.StringVal(n.Value) == "$$"
		}
	}
	return false
}

// staticRegexpVerbatimRepl: every call in the repository packages to a regexp method that EXPANDS its
// replacement argument passes a replacement that is provably free of '$'. This is the precondition under
// which "the value is inserted verbatim" (C16/C18) and "the escaped value is what lands in the raw XML"
// (C01) hold for the non-Func replacement calls; ReplaceAllStringFunc / ReplaceAllLiteralString insert their
// result verbatim by documentation and need nothing.
func staticRegexpVerbatimRepl(g *Gen, o CheckOpts) []StaticResult {
	type site struct{ fn, pos, what string }
	var good, bad []site
	for fn := range ssautil.AllFunctions(g.Prog) {
		if !inRepo(fn) || fn.Synthetic != "" && !strings.Contains(fn.Name(), "$") {
			continue
		}
		for _, b := range fn.Blocks {
			for _, in := range b.Instrs {
				ci, ok := in.(ssa.CallInstruction)
				if !ok {
					continue
				}
				sc := ci.Common().StaticCallee()
				if sc == nil {
					continue
				}
				idx, ok := expandingRegexpCalls[sc.String()]
				if !ok || idx >= len(ci.Common().Args) {
					continue
				}
				arg := ci.Common().Args[idx]
				s := site{fn: fn.String(), pos: shortPos(g, ci.Pos()), what: fmt.Sprintf("%s(…, %s)", sc.Name(), arg.String())}
				if dollarFree(arg, 0) {
					good = append(good, s)
				} else {
					bad = append(bad, s)
				}
			}
		}
	}
	fm := func(ss []site) string {
		var ls []string
		for _, s := range ss {
			ls = append(ls, fmt.Sprintf("%s  %s  in %s", s.pos, s.what, s.fn))
		}
		sort.Strings(ls)
		return strings.Join(ls, "\n")
	}
	res := StaticResult{Name: "static:regexp-repl:every-expanding-replacement-is-dollar-free", OK: len(bad) == 0,
		Desc:   fmt.Sprintf("precondition of regexp's expanding replacement calls (ReplaceAllString, ReplaceAll, Expand*): the replacement is a constant without '$', strings.ReplaceAll(x,\"$\",\"$$\") or a formatted number — otherwise '$1', '${x}', '$$' inside caller data is interpreted (%d call sites, %d not provably '$'-free)", len(good)+len(bad), len(bad)),
		Detail: "sites with a '$'-free replacement:\n" + fm(good)}
	if len(bad) > 0 {
		res.Detail = "SITES WHOSE REPLACEMENT MAY CONTAIN '$' (caller data would be expanded, not inserted verbatim):\n" + fm(bad) + "\n\n" + res.Detail
	}
	return []StaticResult{res}
}

func shortPos(g *Gen, p token.Pos) string {
	if !p.IsValid() {
		return "?"
	}
	ps := g.Prog.Fset.Position(p)
	return fmt.Sprintf("%s:%d", shortFile(ps.Filename), ps.Line)
}
