package vc

import (
	"os"
	"fmt"
	"go/types"
	"sort"
	"strings"

	"golang.org/x/tools/go/packages"
	"golang.org/x/tools/go/ssa"
	"golang.org/x/tools/go/ssa/ssautil"
)

const RepoModule = "github.com/zerx-lab/wordZero"

// Gen is the global generator state.
type Gen struct {
	TE       *TypeEnv
	Prog     *ssa.Program
	Pkgs     []*packages.Package
	SSAPkgs  map[string]*ssa.Package // by package name
	CS       *ContractSet
	tagTys   map[string]types.Type // struct types mentioned in elemOf/tagged (see idtags.go)
	tagPures map[string]bool       // spec functions that (transitively) mention allocation tags
	Pures    map[string]*PureFn
	strLits  map[string]string
	strOrder []string
	ufDecl   map[string]string
	ufOrder  []string
	WS       map[*ssa.Function]*WriteSet
	fnByKey  map[string]*ssa.Function
	pureDefs []pureDef // definitions of spec functions, in dependency order
	BrokenPures map[string]string // spec functions whose body cannot be evaluated on this tree -> reason (declared, undefined)
	pureDecls []pureDef // forward declarations of the recursive ones
	pureDone map[string]bool
	axioms   []string
	axiomKey  map[string]string // axiom text -> symbol that must be mentioned for the axiom to be emitted
	axiomNote map[string]string // axiom text -> assumption reported by the functions whose VCs get it
	Verbose  bool
	epochs   map[int]bool
	constMaps map[*ssa.Global][]constMapEntry
	WFAxioms bool // emit global heap well-formedness axioms
	WFEntry  bool // emit heap well-formedness axioms for the heaps as they are at function entry
	heapRefs map[string]bool // name@epoch consts referenced
	heapRefOrder []string
}

type pureDef struct{ Name, Text string }

// Load loads the repository packages and contracts.
func Load(repo string) (*Gen, error) {
	cfg := &packages.Config{Mode: packages.LoadAllSyntax, Dir: repo, BuildFlags: []string{"-tags=verif"},
		Env: append(envBase(), "GOFLAGS=-mod=mod", "GOPROXY=off", "GOSUMDB=off", "GOTOOLCHAIN=local")}
	pkgs, err := packages.Load(cfg, "./pkg/document", "./pkg/style", "./pkg/markdown")
	if err != nil {
		return nil, err
	}
	for _, p := range pkgs {
		if len(p.Errors) > 0 {
			return nil, fmt.Errorf("package %s: %v", p.PkgPath, p.Errors[0])
		}
	}
	prog, spkgs := ssautil.AllPackages(pkgs, ssa.InstantiateGenerics|ssa.GlobalDebug)
	prog.Build()
	g := &Gen{TE: NewTypeEnv(), Prog: prog, Pkgs: pkgs, SSAPkgs: map[string]*ssa.Package{},
		strLits: map[string]string{}, ufDecl: map[string]string{}, WS: map[*ssa.Function]*WriteSet{},
		fnByKey: map[string]*ssa.Function{}, pureDone: map[string]bool{}, heapRefs: map[string]bool{}}
	for _, sp := range spkgs {
		if sp != nil {
			g.SSAPkgs[sp.Pkg.Name()] = sp
		}
	}
	g.WFAxioms = os.Getenv("GOVC_WF") == "1"
	g.WFEntry = os.Getenv("GOVC_WF") != "0" && os.Getenv("GOVC_WF") != "1"
	cs, err := LoadContracts(repo)
	if err != nil {
		return nil, err
	}
	g.CS = cs
	g.Pures = cs.Pures
	if err := g.expandTemplates(); err != nil {
		return nil, err
	}
	g.genDeepcopySpecs()
	g.indexFunctions()
	g.StrLit("")
	g.TE.heapSort["$next"] = SInt
	g.TE.heapSort["$next0"] = SInt
	return g, nil
}

// FuncKey is the contract key of an ssa function: "document.(*Table).DeleteRow".
func FuncKey(fn *ssa.Function) string {
	if par := fn.Parent(); par != nil {
		// a function literal: key of the enclosing function + "$k" (go/ssa's numbering, source order)
		return FuncKey(par) + strings.TrimPrefix(fn.Name(), par.Name())
	}
	if fn.Pkg == nil {
		if fn.Object() != nil && fn.Object().Pkg() != nil {
			return fn.Object().Pkg().Name() + "." + relName(fn)
		}
		return fn.String()
	}
	return fn.Pkg.Pkg.Name() + "." + relName(fn)
}

func relName(fn *ssa.Function) string {
	if recv := fn.Signature.Recv(); recv != nil {
		t := recv.Type()
		star := ""
		if p, ok := t.(*types.Pointer); ok {
			t = p.Elem()
			star = "*"
		}
		n := t.String()
		if nt, ok := t.(*types.Named); ok {
			n = nt.Obj().Name()
		}
		if star != "" {
			return "(*" + n + ")." + fn.Name()
		}
		return "(" + n + ")." + fn.Name()
	}
	return fn.Name()
}

func (g *Gen) indexFunctions() {
	for _, sp := range g.SSAPkgs {
		for _, m := range sp.Members {
			switch m := m.(type) {
			case *ssa.Function:
				g.fnByKey[FuncKey(m)] = m
				g.indexAnon(m)
			case *ssa.Type:
				for _, t := range []types.Type{m.Type(), types.NewPointer(m.Type())} {
					ms := g.Prog.MethodSets.MethodSet(t)
					for i := 0; i < ms.Len(); i++ {
						f := g.Prog.MethodValue(ms.At(i))
						if f != nil && f.Synthetic == "" {
							g.fnByKey[FuncKey(f)] = f
							g.indexAnon(f)
						}
					}
				}
			}
		}
	}
}

// indexAnon indexes the function literals of fn (contracts can bind to "Outer$1").
func (g *Gen) indexAnon(fn *ssa.Function) {
	for _, a := range fn.AnonFuncs {
		g.fnByKey[FuncKey(a)] = a
		g.indexAnon(a)
	}
}

// FuncByKey finds the ssa function for a contract key.
func (g *Gen) FuncByKey(k string) *ssa.Function { return g.fnByKey[k] }

// ContractOf returns the contract of fn, if any.
func (g *Gen) ContractOf(fn *ssa.Function) *Contract {
	return g.CS.Funcs[FuncKey(fn)]
}

// StrLit interns a string literal and returns its SMT constant.
func (g *Gen) StrLit(s string) string {
	if s == "" {
		if _, ok := g.strLits[s]; !ok {
			g.strLits[s] = "str_empty"
		}
		return "str_empty"
	}
	if n, ok := g.strLits[s]; ok {
		return n
	}
	n := fmt.Sprintf("lit%d", len(g.strOrder))
	g.strLits[s] = n
	g.strOrder = append(g.strOrder, s)
	return n
}

// UF declares (once) an uninterpreted function and returns its name.
func (g *Gen) UF(name string, argSorts []string, res string) string {
	if _, ok := g.ufDecl[name]; !ok {
		g.ufDecl[name] = fmt.Sprintf("(declare-fun %s (%s) %s)", name, strings.Join(argSorts, " "), res)
		g.ufOrder = append(g.ufOrder, name)
	}
	return name
}

func (g *Gen) noteEpoch(e int) {
	if g.epochs == nil {
		g.epochs = map[int]bool{}
	}
	g.epochs[e] = true
}

func (g *Gen) noteHeapRef(sym, heap string) {
	if !g.heapRefs[sym] {
		g.heapRefs[sym] = true
		g.heapRefOrder = append(g.heapRefOrder, sym+"\x00"+heap)
	}
}

// ifacePayload extracts the payload of interface term x as type t.
func (g *Gen) ifacePayload(x string, t types.Type) string {
	s := g.TE.SortOf(t)
	switch s {
	case SRef:
		return "(iref " + x + ")"
	case SInt:
		return "(iint " + x + ")"
	case SStr:
		return "(istr " + x + ")"
	case SBool:
		return "(ibool " + x + ")"
	case SReal:
		return "(ireal " + x + ")"
	case SSlice:
		return "(islice " + x + ")"
	case SIface:
		return x
	}
	// struct payload boxed through an injection
	unbox := g.UF("unbox_"+s, []string{SInt}, s)
	g.boxAxiom(s)
	return fmt.Sprintf("(%s (iint %s))", unbox, x)
}

func (g *Gen) boxAxiom(s string) {
	box := g.UF("box_"+s, []string{s}, SInt)
	unbox := g.UF("unbox_"+s, []string{SInt}, s)
	ax := fmt.Sprintf("(assert (forall ((v %s)) (! (= (%s (%s v)) v) :pattern ((%s v)))))", s, unbox, box, box)
	for _, a := range g.axioms {
		if a == ax {
			return
		}
	}
	g.axioms = append(g.axioms, ax)
}

// makeIface builds an interface value from a concrete value term of type t.
func (g *Gen) makeIface(x string, t types.Type) string {
	if isIface(t) {
		return x
	}
	tag := g.TE.Tag(t)
	s := g.TE.SortOf(t)
	ref, i, str, b, r, sl := "nil", "0", "str_empty", "false", "0.0", "(mkslice 0 0 0 0)"
	switch s {
	case SRef:
		ref = x
	case SInt:
		i = x
	case SStr:
		str = x
	case SBool:
		b = x
	case SReal:
		r = x
	case SSlice:
		sl = x
	default:
		box := g.UF("box_"+s, []string{s}, SInt)
		g.boxAxiom(s)
		i = fmt.Sprintf("(%s %s)", box, x)
	}
	return fmt.Sprintf("(mkiface %d %s %s %s %s %s %s)", tag, ref, i, str, b, r, sl)
}

// resolveHeapSpec turns "Table.Rows", "[]TableRow", "Table.*" into heap names.
func (g *Gen) resolveHeapSpec(pkg *types.Package, spec string) []string {
	spec = strings.TrimSpace(spec)
	if strings.HasPrefix(spec, "[]") {
		t := resolveTypeText(pkg, spec[2:])
		if isStruct(t) {
			return g.TE.StructHeaps(t)
		}
		return []string{g.TE.CellHeap(t)}
	}
	if strings.HasPrefix(spec, "map:") {
		// map:K:V
		p := strings.Split(spec, ":")
		mt := types.NewMap(resolveTypeText(pkg, p[1]), resolveTypeText(pkg, p[2]))
		d, v, _, _ := g.TE.MapHeaps(mt)
		return []string{d, v}
	}
	if strings.HasPrefix(spec, "cell:") {
		return []string{g.TE.CellHeap(resolveTypeText(pkg, spec[5:]))}
	}
	i := strings.LastIndex(spec, ".")
	// allow pkg.Type.Field... find the type prefix
	parts := strings.Split(spec, ".")
	for n := 1; n <= 2 && n <= len(parts); n++ {
		tn := strings.Join(parts[:n], ".")
		var t types.Type
		func() {
			defer func() { recover() }()
			t = resolveTypeText(pkg, tn)
		}()
		if t == nil || !isStruct(t) {
			continue
		}
		rest := strings.Join(parts[n:], ".")
		if rest == "*" || rest == "" {
			return g.TE.StructHeaps(t)
		}
		ft := typeAtPath(t, rest)
		if isStruct(ft) {
			var out []string
			for _, l := range g.TE.Leaves(ft, rest) {
				out = append(out, g.TE.FieldHeap(t, l.Path, l.Sort))
			}
			return out
		}
		return []string{g.TE.FieldHeap(t, rest, g.TE.SortOf(ft))}
	}
	_ = i
	panic(ErrSubset{"cannot resolve heap spec " + spec})
}

// unchangedAll: every heap (except those listed) agrees between old and cur on refs allocated in old.
func (g *Gen) unchangedAll(old, cur HeapView, except map[string]bool) string {
	return g.unchangedAllBound(old, cur, except, "")
}

// unchangedAllBound: as unchangedAll, for the refs whose id is below bound ("" = allocated in old).
func (g *Gen) unchangedAllBound(old, cur HeapView, except map[string]bool, bound string) string {
	os, ok1 := old.(*State)
	cs, ok2 := cur.(*State)
	if !ok1 || !ok2 {
		panic(ErrSubset{"unchangedHeap needs concrete states"})
	}
	if os.epoch != cs.epoch {
		panic(ErrSubset{"unchangedHeap across havoc-all"})
	}
	names := map[string]bool{}
	for k := range os.heaps {
		names[k] = true
	}
	for k := range cs.heaps {
		names[k] = true
	}
	var ks []string
	for k := range names {
		ks = append(ks, k)
	}
	sort.Strings(ks)
	var parts []string
	for _, h := range ks {
		if except[h] {
			continue
		}
		a, b := os.Heap(h), cs.Heap(h)
		if a == b || strings.HasPrefix(h, "G_ghost_") {
			continue
		}
		if strings.HasPrefix(h, "G_") {
			parts = append(parts, fmt.Sprintf("(= %s %s)", a, b))
			continue
		}
		bd := os.Next()
		if bound != "" {
			bd = bound
		}
		parts = append(parts, unchangedOne(cs.merges, bd, a, b, 0, mapKeySort(g.TE.heapSort[h])))
	}
	if len(parts) == 0 {
		return "true"
	}
	return "(and " + strings.Join(parts, " ") + ")"
}

// unchangedOne: heap version b agrees with version a on every object allocated below next. When b was introduced
// at a control-flow join (b = ite(reach1, b1, ite(reach2, b2, ...)), every obligation after the join is under
// reach1 or reach2 or ...), the statement is split per incoming branch: (reach_i => unchanged(b_i)) for every i,
// together with the cover (or reach_i) that makes the split equivalent to the statement about b. A solver decides
// the branches separately in a fraction of the time it needs to case-split the array-valued ite itself.
// mapKeySort: for a map heap (Array Ref (Array K V)) the key sort K, else "".
func mapKeySort(heapSort string) string {
	const p = "(Array Ref (Array "
	if !strings.HasPrefix(heapSort, p) {
		return ""
	}
	rest := heapSort[len(p):]
	if strings.HasPrefix(rest, "(") {
		return ""
	}
	if i := strings.Index(rest, " "); i > 0 {
		return rest[:i]
	}
	return ""
}

func unchangedOne(merges map[string][]mergeBranch, next, a, b string, depth int, keySort string) string {
	if a == b {
		return "true"
	}
	bs, ok := merges[b]
	if !ok || depth >= 4 {
		if keySort != "" {
			// map heaps: key by key (equality of the per-object key arrays would need extensionality, which the
			// solvers do not derive from the pointwise postconditions of callees)
			// (the entry of nil is junk no execution reads: has()/lookups guard against the nil map)
			return fmt.Sprintf("(forall ((r Ref) (k %s)) (! (=> (and (alloc r %s) (not (= r nil))) (= (select (select %s r) k) (select (select %s r) k))) :pattern ((select (select %s r) k))))", keySort, next, b, a, b)
		}
		return fmt.Sprintf("(forall ((r Ref)) (! (=> (alloc r %s) (= (select %s r) (select %s r))) :pattern ((select %s r))))", next, b, a, b)
	}
	parts := []string{}
	var reaches []string
	for _, br := range bs {
		reaches = append(reaches, br.reach)
		if u := unchangedOne(merges, next, a, br.heap, depth+1, keySort); u != "true" {
			parts = append(parts, fmt.Sprintf("(=> %s %s)", br.reach, u))
		}
	}
	parts = append(parts, "(or "+strings.Join(reaches, " ")+")")
	return "(and " + strings.Join(parts, " ") + ")"
}

// ---- pure spec functions ----

type recView struct {
	used map[string]bool
	g    *Gen
}

func (r *recView) Heap(name string) string { r.used[name] = true; return "hp_" + name }
func (r *recView) Next() string            { r.used["$next"] = true; return "hp_$next" }

func (g *Gen) pkgTypes(name string) *types.Package {
	if sp, ok := g.SSAPkgs[name]; ok {
		return sp.Pkg
	}
	return nil
}

// PreparePures computes heap dependencies of all spec functions (fixpoint) and their definitions.
func (g *Gen) PreparePures() (err error) {
	defer func() {
		if r := recover(); r != nil {
			if e, ok := r.(ErrSubset); ok {
				err = fmt.Errorf("spec functions: %s", e.Msg)
				return
			}
			panic(r)
		}
	}()
	var names []string
	for k := range g.Pures {
		names = append(names, k)
	}
	sort.Strings(names)
	// fixpoint on heap sets
	for iter := 0; iter < 20; iter++ {
		changed := false
		for _, k := range names {
			pf := g.Pures[k]
			rv := &recView{used: map[string]bool{}, g: g}
			g.tryEvalPureBody(pf, rv)
			var hs []string
			for h := range rv.used {
				hs = append(hs, h)
			}
			sort.Strings(hs)
			if strings.Join(hs, ",") != strings.Join(pf.Heaps, ",") {
				pf.Heaps = hs
				changed = true
			}
		}
		if !changed {
			break
		}
	}
	// recursion detection (direct or mutual via name mention)
	calls := map[string][]string{}
	for _, k := range names {
		calls[k] = g.pureCalls(g.Pures[k])
	}
	var reach func(from, to string, seen map[string]bool) bool
	reach = func(from, to string, seen map[string]bool) bool {
		for _, c := range calls[from] {
			if c == to {
				return true
			}
			if !seen[c] {
				seen[c] = true
				if reach(c, to, seen) {
					return true
				}
			}
		}
		return false
	}
	for _, k := range names {
		g.Pures[k].Recursive = reach(k, k, map[string]bool{})
	}
	// emit in dependency order
	g.pureDefs = nil
	g.pureDecls = nil
	g.pureDone = map[string]bool{}
	var emit func(k string, stack map[string]bool)
	emit = func(k string, stack map[string]bool) {
		if g.pureDone[k] || stack[k] {
			return
		}
		stack[k] = true
		for _, c := range calls[k] {
			if c != k {
				emit(c, stack)
			}
		}
		delete(stack, k)
		if g.pureDone[k] {
			return
		}
		g.pureDone[k] = true
		pf := g.Pures[k]
		rv := &recView{used: map[string]bool{}, g: g}
		body, bodyOK := g.tryEvalPureBody(pf, rv)
		var ps []string
		for _, h := range pf.Heaps {
			ps = append(ps, fmt.Sprintf("(hp_%s %s)", h, g.TE.heapSort[h]))
		}
		pkg := g.pkgTypes(pf.Pkg)
		for _, p := range pf.Params {
			ps = append(ps, fmt.Sprintf("(p_%s %s)", p.Name, g.TE.SortOf(resolveTypeText(pkg, p.T.Text))))
		}
		rs := g.TE.SortOf(resolveTypeText(pkg, pf.Result.Text))
		if !bodyOK {
			// The body cannot be evaluated against the current tree (it names a field, type or function the code
			// no longer has). The function stays declared but undefined: nothing can be proved from it, so every
			// obligation that needs it fails and is reported against the baseline - the contract is judged, not skipped.
			var sorts []string
			for _, p := range ps {
				sorts = append(sorts, strings.TrimSpace(p[strings.Index(p, " ")+1:len(p)-1]))
			}
			sym := pureSym(pf)
			if pf.Recursive {
				sorts = append([]string{"Fuel"}, sorts...)
			}
			g.pureDecls = append(g.pureDecls, pureDef{sym, fmt.Sprintf("(declare-fun %s (%s) %s)", sym, strings.Join(sorts, " "), rs)})
			return
		}
		if pf.Recursive {
			// Fuel encoding (as in Dafny): the definitional axiom unfolds one level per unit of fuel, so
			// E-matching cannot loop; a synonym axiom makes the fuel argument irrelevant to the value.
			var sorts, vars []string
			for _, p := range ps {
				f := strings.Fields(strings.Trim(p, "()"))
				vars = append(vars, f[0])
				sorts = append(sorts, strings.TrimSpace(p[strings.Index(p, " ")+1:len(p)-1]))
			}
			sym := pureSym(pf)
			app := func(fuel string) string {
				return fmt.Sprintf("(%s %s)", sym, strings.Join(append([]string{fuel}, vars...), " "))
			}
			binders := "(fuelv Fuel) " + strings.Join(ps, " ")
			g.pureDecls = append(g.pureDecls, pureDef{sym, fmt.Sprintf("(declare-fun %s (Fuel %s) %s)", sym, strings.Join(sorts, " "), rs)})
			txt := ""
			txt += fmt.Sprintf("(assert (forall (%s) (! (= %s %s) :pattern (%s))))\n", binders, app("(FS fuelv)"), body, app("(FS fuelv)"))
			txt += fmt.Sprintf("(assert (forall (%s) (! (= %s %s) :pattern (%s))))", binders, app("(FS fuelv)"), app("fuelv"), app("(FS fuelv)"))
			g.pureDefs = append(g.pureDefs, pureDef{sym, txt})
		} else {
			g.pureDefs = append(g.pureDefs, pureDef{pureSym(pf), fmt.Sprintf("(define-fun %s (%s) %s %s)", pureSym(pf), strings.Join(ps, " "), rs, body)})
		}
	}
	for _, k := range names {
		emit(k, map[string]bool{})
	}
	// axioms
	for _, ax := range g.CS.Axioms {
		env := &SpecEnv{G: g, Pkg: g.pkgTypes(ax.Pkg), Vars: map[string]SV{}, Cur: nil}
		g.axioms = append(g.axioms, "(assert "+env.Eval(ax.Expr).Term+")")
	}
	return nil
}

func pureSym(pf *PureFn) string { return "spec_" + pf.Pkg + "_" + pf.Name }

// tryEvalPureBody evaluates a spec function body; a body the current tree cannot give a meaning to is recorded
// in g.BrokenPures (reported by every run) instead of aborting the whole run.
func (g *Gen) tryEvalPureBody(pf *PureFn, view HeapView) (body string, ok bool) {
	defer func() {
		if r := recover(); r != nil {
			if e, isSub := r.(ErrSubset); isSub {
				if g.BrokenPures == nil {
					g.BrokenPures = map[string]string{}
				}
				g.BrokenPures[pf.Pkg+"."+pf.Name] = e.Msg
				body, ok = "", false
				return
			}
			panic(r)
		}
	}()
	return g.evalPureBody(pf, view), true
}

func (g *Gen) evalPureBody(pf *PureFn, view HeapView) string {
	pkg := g.pkgTypes(pf.Pkg)
	if pkg == nil {
		panic(ErrSubset{"spec function in unknown package " + pf.Pkg})
	}
	env := &SpecEnv{G: g, Pkg: pkg, Vars: map[string]SV{}, Cur: view, Next0: "0"}
	if pf.Recursive {
		env.Fuel = "fuelv"
	}
	if pf.DcsType != nil {
		env.DcsOf = pf.DcsType
	}
	for _, p := range pf.Params {
		env.Vars[p.Name] = SV{Term: "p_" + p.Name, Typ: resolveTypeText(pkg, p.T.Text)}
	}
	v := env.Eval(pf.Body)
	rt := resolveTypeText(pkg, pf.Result.Text)
	if isReal(rt) && !isReal(v.Typ) {
		return "(to_real " + v.Term + ")"
	}
	return v.Term
}

func (g *Gen) pureCalls(pf *PureFn) []string {
	seen := map[string]bool{}
	var walk func(e SExpr)
	walk = func(e SExpr) {
		switch e := e.(type) {
		case SUnary:
			walk(e.X)
		case SBinary:
			walk(e.X)
			walk(e.Y)
		case SSelect:
			walk(e.X)
		case SIndex:
			walk(e.X)
			walk(e.I)
		case SSliceE:
			walk(e.X)
			if e.Lo != nil {
				walk(e.Lo)
			}
			if e.Hi != nil {
				walk(e.Hi)
			}
		case SCall:
			if _, ok := g.Pures[pf.Pkg+"."+e.Fn]; ok {
				seen[pf.Pkg+"."+e.Fn] = true
			} else if _, ok := g.Pures[e.Fn]; ok {
				seen[e.Fn] = true
			}
			for _, a := range e.Args {
				walk(a)
			}
		case STypeAssert:
			walk(e.X)
		case SQuant:
			walk(e.Body)
		}
	}
	walk(pf.Body)
	if pf.DcsType != nil {
		// callees of a generated deep-copy function: the dcs functions of the struct types its fields mention
		var visit func(t types.Type, depth int)
		visit = func(t types.Type, depth int) {
			switch u := t.Underlying().(type) {
			case *types.Pointer:
				visit(u.Elem(), depth)
			case *types.Slice:
				visit(u.Elem(), depth)
			case *types.Struct:
				if nt, ok := t.(*types.Named); ok && depth > 0 {
					k := nt.Obj().Pkg().Name() + "." + dcsName(nt)
					if _, ok := g.Pures[k]; ok {
						seen[k] = true
						return
					}
				}
				for i := 0; i < u.NumFields(); i++ {
					if u.Field(i).Name() != "XMLName" {
						visit(u.Field(i).Type(), depth+1)
					}
				}
			}
		}
		visit(pf.DcsType, 0)
	}
	var out []string
	for k := range seen {
		out = append(out, k)
	}
	sort.Strings(out)
	return out
}

func (e *SpecEnv) callPure(pf *PureFn, x SCall) SV {
	if len(x.Args) != len(pf.Params) {
		e.fail("%s: want %d args", pf.Name, len(pf.Params))
	}
	var vals []SV
	for _, a := range x.Args {
		vals = append(vals, e.Eval(a))
	}
	return e.callPureVals(pf, vals)
}

// callPureVals applies a spec function to already evaluated arguments.
func (e *SpecEnv) callPureVals(pf *PureFn, vals []SV) SV {
	var args []string
	if pf.Recursive {
		if e.Fuel != "" {
			args = append(args, e.Fuel)
		} else {
			args = append(args, "(FS (FS FZ))")
		}
	}
	for _, h := range pf.Heaps {
		if h == "$next" {
			args = append(args, e.Cur.Next())
			continue
		}
		if h == "$next0" {
			args = append(args, e.entryBound())
			continue
		}
		args = append(args, e.Cur.Heap(h))
	}
	pkg := e.G.pkgTypes(pf.Pkg)
	for i, v := range vals {
		pt := resolveTypeText(pkg, pf.Params[i].T.Text)
		t := v.Term
		if v.Loc != nil {
			t = e.refOf(v)
		}
		if isReal(pt) && !isReal(v.Typ) {
			t = "(to_real " + t + ")"
		}
		if isUntypedNil(v.Typ) {
			t = e.G.TE.Zero(pt)
		}
		args = append(args, t)
	}
	rt := resolveTypeText(pkg, pf.Result.Text)
	if len(args) == 0 {
		return SV{Term: pureSym(pf), Typ: rt}
	}
	return SV{Term: fmt.Sprintf("(%s %s)", pureSym(pf), strings.Join(args, " ")), Typ: rt}
}


// expandTemplates expands "forall-fields F of T kind :: text" schemas using go/types.
// kind: ptr (pointer fields), all (every field), scalar (non-pointer, non-slice fields); the XMLName field is always skipped.
func (g *Gen) expandTemplates() (err error) {
	defer func() {
		if r := recover(); r != nil {
			if e, ok := r.(ErrSubset); ok {
				err = fmt.Errorf("template: %s", e.Msg)
				return
			}
			panic(r)
		}
	}()
	for _, t := range g.CS.Templates {
		// header: "F of T kind :: body"
		i := strings.Index(t.Text, "::")
		if i < 0 {
			return fmt.Errorf("%s:%d: forall-fields needs '::'", t.File, t.Line)
		}
		hd := strings.Fields(t.Text[:i])
		body := strings.TrimSpace(t.Text[i+2:])
		if len(hd) < 3 || hd[1] != "of" {
			return fmt.Errorf("%s:%d: forall-fields: want 'F of Type [ptr|all|scalar]'", t.File, t.Line)
		}
		kind := "all"
		except := map[string]bool{}
		if len(hd) >= 4 && hd[3] != "except" {
			kind = hd[3]
		}
		for k, w := range hd {
			if w == "except" {
				for _, x := range strings.Split(strings.Join(hd[k+1:], ""), ",") {
					except[strings.TrimSpace(x)] = true
				}
			}
		}
		pkg := g.pkgTypes(t.Pkg)
		typ := resolveTypeText(pkg, hd[2])
		st, ok := typ.Underlying().(*types.Struct)
		if !ok {
			return fmt.Errorf("%s:%d: forall-fields: %s is not a struct", t.File, t.Line, hd[2])
		}
		n := 0
		for k := 0; k < st.NumFields(); k++ {
			f := st.Field(k)
			if f.Name() == "XMLName" || except[f.Name()] {
				continue
			}
			_, isPtr := f.Type().Underlying().(*types.Pointer)
			_, isSl := f.Type().Underlying().(*types.Slice)
			switch kind {
			case "ptr":
				if !isPtr {
					continue
				}
			case "scalar":
				if isPtr || isSl {
					continue
				}
			}
			tn := types.TypeString(f.Type(), func(p *types.Package) string {
				if p == pkg {
					return ""
				}
				return p.Name()
			})
			tn = strings.TrimPrefix(tn, "*")
			txt := strings.ReplaceAll(strings.ReplaceAll(body, "$F", f.Name()), "$T", tn)
			n++
			if t.Kw == "spec" {
				pf, err := parsePure(t.Pkg, txt)
				if err != nil {
					return fmt.Errorf("%s:%d: %v", t.File, t.Line, err)
				}
				pf.File, pf.Line = t.File, t.Line
				g.CS.Pures[t.Pkg+"."+pf.Name] = pf
				continue
			}
			e, err := ParseSpec(txt)
			if err != nil {
				return fmt.Errorf("%s:%d: %v", t.File, t.Line, err)
			}
			cl := Clause{Text: txt, Expr: e, Line: t.Line, File: t.File}
			switch t.Kw {
			case "requires":
				t.Owner.Requires = append(t.Owner.Requires, cl)
			case "ensures":
				t.Owner.Ensures = append(t.Owner.Ensures, cl)
			case "invariant":
				t.Loop.Invariants = append(t.Loop.Invariants, cl)
			}
		}
		if n == 0 {
			return fmt.Errorf("%s:%d: forall-fields over %s (%s) expands to nothing", t.File, t.Line, hd[2], kind)
		}
	}
	return nil
}


// genDeepcopySpecs registers, for every named struct type of the repository packages, the spec function
// dcs_T(a *T, b *T): "the struct a points to is a deep copy of the struct b points to" (field-wise,
// XMLName excluded). Its body is the deepcopy expansion of one level; nested struct types call their own
// dcs function, so recursive types (Table -> TableRow -> TableCell -> Table) become recursive spec functions.
func (g *Gen) genDeepcopySpecs() {
	for _, sp := range g.SSAPkgs {
		if !strings.HasPrefix(sp.Pkg.Path(), RepoModule) {
			continue
		}
		for _, m := range sp.Members {
			tm, ok := m.(*ssa.Type)
			if !ok || !isStruct(tm.Type()) {
				continue
			}
			nt, ok := tm.Type().(*types.Named)
			if !ok || nt.TypeParams().Len() > 0 {
				continue
			}
			if !deepcopyable(nt, map[string]bool{}) {
				continue
			}
			name := dcsName(nt)
			key := sp.Pkg.Name() + "." + name
			if _, exists := g.Pures[key]; exists {
				continue
			}
			g.Pures[key] = &PureFn{Pkg: sp.Pkg.Name(), Name: name,
				Params: []SBinder{{"a", STypeRef{"*" + nt.Obj().Name()}}, {"b", STypeRef{"*" + nt.Obj().Name()}}},
				Result: STypeRef{"bool"}, Body: SCall{"$dcsbody", []SExpr{SIdent{"a"}, SIdent{"b"}}},
				Text: "generated: deep copy of struct " + nt.Obj().Name(), DcsType: nt, File: "(generated)"}
		}
	}
}

// deepcopyable: every field (transitively, within the package) is a basic value, a pointer to such a
// struct, a slice of such values, or an inline struct.
func deepcopyable(t types.Type, seen map[string]bool) bool {
	k := types.TypeString(t, nil)
	if seen[k] {
		return true
	}
	seen[k] = true
	switch u := t.Underlying().(type) {
	case *types.Basic:
		return true
	case *types.Pointer:
		return isStruct(u.Elem()) && deepcopyable(u.Elem(), seen)
	case *types.Slice:
		return deepcopyable(u.Elem(), seen)
	case *types.Struct:
		for i := 0; i < u.NumFields(); i++ {
			f := u.Field(i)
			if f.Name() == "XMLName" {
				continue
			}
			if _, isA := f.Type().Underlying().(*types.Array); isA {
				continue
			}
			if !deepcopyable(f.Type(), seen) {
				return false
			}
		}
		return true
	}
	return false
}
