package vc

import (
	"fmt"
	"go/token"
	"go/types"

	"golang.org/x/tools/go/ssa"
)

// xml.Marshal / xml.MarshalIndent: total, result unconstrained (as before). In addition a ghost sequence records,
// for every call that succeeded, the value that was handed to the serialiser and the byte slice it returned, so
// that a contract can say WHICH value a part was serialised from (marshalCount(), marshalAt(i), marshalOut(i)),
// while what the bytes look like stays outside the model.
func marshalHeaps(g *Gen) (n, seq, out string) {
	n, seq, out = "G_ghost_marshn", "G_ghost_marshseq", "G_ghost_marshout"
	g.TE.noteHeapRaw(n, SInt)
	g.TE.noteHeapRaw(seq, "(Array Int Iface)")
	g.TE.noteHeapRaw(out, "(Array Int Slice)")
	return
}

func extMarshal(f *frame, cm *ssa.CallCommon, args []Val, st *State, name string, resT types.Type, pos token.Pos) Val {
	c := f.c
	g := c.g
	nH, seqH, outH := marshalHeaps(g)
	r := f.freshResult(resT, st, name)
	bs, err := r.Tuple[0], r.Tuple[1]
	v := args[0].T
	if !isIface(cm.Args[0].Type()) {
		v = g.makeIface(v, cm.Args[0].Type())
	}
	n, seq, out := st.Heap(nH), st.Heap(seqH), st.Heap(outH)
	ok := fmt.Sprintf("(= (itag %s) 0)", err.T)
	st.heaps[seqH] = c.define("marshseq", "(Array Int Iface)", fmt.Sprintf("(ite %s (store %s %s %s) %s)", ok, seq, n, v, seq))
	st.heaps[outH] = c.define("marshout", "(Array Int Slice)", fmt.Sprintf("(ite %s (store %s %s %s) %s)", ok, out, n, bs.T, out))
	st.heaps[nH] = c.define("marshn", SInt, fmt.Sprintf("(ite %s (+ %s 1) %s)", ok, n, n))
	c.assumed["external "+cm.StaticCallee().String()+": total, writes no modelled memory, result unconstrained; a ghost sequence records the value and the returned bytes of every successful call"] = true
	return r
}
