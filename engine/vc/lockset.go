package vc

import (
	"fmt"
	"go/types"
	"sort"
	"strings"

	"golang.org/x/tools/go/ssa"
	"golang.org/x/tools/go/ssa/ssautil"
)

// staticLockset: ownership condition for the template cache (concurrent half of C17, lock discipline only).
// Every access to the field TemplateEngine.cache (reading the map value for a lookup, a map update, a delete, or an
// assignment of the field) must happen while the engine's RWMutex is held by the accessing function: the function's
// entry block acquires te.mutex (Lock, or RLock for functions that only read) on the SAME receiver before the access and
// releases it only through a deferred Unlock/RUnlock — so it is held on every path to every return. A function that
// accesses the cache without locking is accepted only if every one of its call sites lies in a function that holds the
// lock (write lock if the callee writes) at the call. The constructor (the engine is not yet shared) is exempt.
// What this does NOT show: absence of races on the Template objects and documents themselves (that rests on the frame
// contracts: rendering and loading write only memory they allocated), and anything about schedules.
func init() {
	staticChecks["template-cache-lockset"] = staticLockset
}

type lockInfo struct {
	held  string // "", "R" or "W": lock acquired in the entry block with a deferred release
	reads []string
	writes []string
}

func staticLockset(g *Gen, o CheckOpts) []StaticResult {
	const typeName = "TemplateEngine"
	const field, mutex = "cache", "mutex"
	all := ssautil.AllFunctions(g.Prog)
	infos := map[*ssa.Function]*lockInfo{}
	isField := func(v ssa.Value, name string) (*ssa.FieldAddr, bool) {
		fa, ok := v.(*ssa.FieldAddr)
		if !ok {
			return nil, false
		}
		pt, ok := fa.X.Type().Underlying().(*types.Pointer)
		if !ok {
			return nil, false
		}
		nt, ok := pt.Elem().(*types.Named)
		if !ok || nt.Obj().Name() != typeName {
			return nil, false
		}
		st, ok := nt.Underlying().(*types.Struct)
		if !ok {
			return nil, false
		}
		return fa, st.Field(fa.Field).Name() == name
	}
	var fns []*ssa.Function
	for fn := range all {
		if inRepo(fn) || (fn.Parent() != nil && inRepo(fn.Parent())) {
			fns = append(fns, fn)
		}
	}
	sort.Slice(fns, func(i, j int) bool { return fns[i].String() < fns[j].String() })
	for _, fn := range fns {
		li := &lockInfo{}
		infos[fn] = li
		if len(fn.Blocks) == 0 {
			continue
		}
		// lock acquired in the entry block on a field of the receiver, released by defer
		acquired, deferred := "", ""
		for _, in := range fn.Blocks[0].Instrs {
			switch c := in.(type) {
			case *ssa.Call:
				if sc := c.Common().StaticCallee(); sc != nil && len(c.Common().Args) == 1 {
					if _, ok := isField(c.Common().Args[0], mutex); ok {
						switch sc.String() {
						case "(*sync.RWMutex).Lock":
							acquired = "W"
						case "(*sync.RWMutex).RLock":
							acquired = "R"
						}
					}
				}
			case *ssa.Defer:
				if sc := c.Common().StaticCallee(); sc != nil && len(c.Common().Args) == 1 {
					if _, ok := isField(c.Common().Args[0], mutex); ok {
						switch sc.String() {
						case "(*sync.RWMutex).Unlock":
							deferred = "W"
						case "(*sync.RWMutex).RUnlock":
							deferred = "R"
						}
					}
				}
			}
		}
		explicitUnlock := false
		for _, b := range fn.Blocks {
			for _, in := range b.Instrs {
				if c, ok := in.(*ssa.Call); ok {
					if sc := c.Common().StaticCallee(); sc != nil && (sc.String() == "(*sync.RWMutex).Unlock" || sc.String() == "(*sync.RWMutex).RUnlock") {
						explicitUnlock = true
					}
				}
			}
		}
		if acquired != "" && acquired == deferred && !explicitUnlock {
			li.held = acquired
		}
		for _, b := range fn.Blocks {
			for _, in := range b.Instrs {
				fa, ok := in.(*ssa.FieldAddr)
				if !ok {
					continue
				}
				if _, is := isField(fa, field); !is {
					continue
				}
				pos := g.Prog.Fset.Position(fa.Pos()).String()
				for _, r := range *fa.Referrers() {
					switch u := r.(type) {
					case *ssa.Store:
						if u.Addr == fa {
							li.writes = append(li.writes, pos+" (field assigned)")
						}
					case *ssa.UnOp: // load of the map value
						wrote := false
						for _, r2 := range *u.Referrers() {
							switch m := r2.(type) {
							case *ssa.MapUpdate:
								if m.Map == u {
									wrote = true
								}
							case *ssa.Call:
								if bi, ok := m.Common().Value.(*ssa.Builtin); ok && bi.Name() == "delete" {
									wrote = true
								} else if !(ok && (bi.Name() == "len")) {
									wrote = true // the map escapes into a call
								}
							case *ssa.Lookup, *ssa.Range, *ssa.DebugRef:
							default:
								wrote = true // stored, returned, captured ...: treated as a write access
							}
						}
						if wrote {
							li.writes = append(li.writes, pos)
						} else {
							li.reads = append(li.reads, pos)
						}
					case *ssa.DebugRef:
					default:
						li.writes = append(li.writes, pos+" (address escapes)")
					}
				}
			}
		}
	}
	// callers of functions that access the cache without holding the lock
	callers := map[*ssa.Function][]*ssa.Function{}
	for _, fn := range fns {
		for _, b := range fn.Blocks {
			for _, in := range b.Instrs {
				if c, ok := in.(ssa.CallInstruction); ok {
					if sc := c.Common().StaticCallee(); sc != nil {
						callers[sc] = append(callers[sc], fn)
					}
				}
			}
		}
	}
	var bad []string
	accessing := 0
	var need func(fn *ssa.Function, w bool, seen map[*ssa.Function]bool) bool
	need = func(fn *ssa.Function, w bool, seen map[*ssa.Function]bool) bool {
		li := infos[fn]
		if li != nil && (li.held == "W" || (li.held == "R" && !w)) {
			return true
		}
		if seen[fn] {
			return true
		}
		seen[fn] = true
		cs := callers[fn]
		if len(cs) == 0 {
			return false
		}
		for _, c := range cs {
			if !need(c, w, seen) {
				return false
			}
		}
		return true
	}
	for _, fn := range fns {
		li := infos[fn]
		if len(li.reads) == 0 && len(li.writes) == 0 {
			continue
		}
		if strings.HasPrefix(fn.Name(), "NewTemplateEngine") {
			continue // the engine under construction is not shared yet
		}
		accessing++
		w := len(li.writes) > 0
		if !need(fn, w, map[*ssa.Function]bool{}) {
			kind := "reads"
			if w {
				kind = "writes"
			}
			bad = append(bad, fmt.Sprintf("%s %s the template cache without holding the engine's lock (%s)", fn.String(), kind, strings.Join(append(append([]string{}, li.writes...), li.reads...), ", ")))
		}
	}
	res := StaticResult{Name: "static:lockset:template-cache-under-lock", OK: len(bad) == 0 && accessing > 0,
		Desc: fmt.Sprintf("every access to TemplateEngine.cache happens under the engine's RWMutex (write accesses under the write lock); %d accessing functions", accessing)}
	if accessing == 0 {
		res.Detail = "no function accesses TemplateEngine.cache: the check is vacuous (renamed field?)"
	} else if len(bad) > 0 {
		res.Detail = strings.Join(bad, "; ")
	}
	return []StaticResult{res}
}
