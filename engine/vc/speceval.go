package vc

import (
	"fmt"
	"go/constant"
	"go/types"
	"math/big"
	"strconv"
	"strings"

	"golang.org/x/tools/go/ssa"
)

// HeapView gives the SMT term of the current version of a named heap.
type HeapView interface {
	Heap(name string) string
	Next() string // allocation counter term
}

// LV is a location inside a struct object: root struct type, flattened path prefix, base ref.
type LV struct {
	Root types.Type
	Path string
	Base string
	View HeapView // heap the location is read from (spec evaluation only)
}

// SV is a spec value.
type SV struct {
	Term string
	Typ  types.Type
	Loc  *LV // set for struct-typed expressions (locations)
}

// SpecEnv is the evaluation environment of a spec expression.
type SpecEnv struct {
	G     *Gen
	Pkg   *types.Package
	Vars  map[string]SV
	Cur   HeapView
	Old   HeapView
	LoopPre HeapView // loop clauses: the state in which the loop was entered (before the havoc), for loopentry(e)
	Next0 string // allocation counter at function entry (for fresh())
	Fuel  string // fuel term passed to recursive spec functions (inside their own definitions)
	DcsOf types.Type // set while the body of the generated dcs_<T> is being evaluated
	dcsEntered bool
	LoopEntry map[string]HeapView // heap views at the entry of the loops entered so far, by ordinal (atLoop(n, e))
	FnScope *types.Scope // scope of the function whose contract is evaluated: types declared inside its body can be named
}

func (e *SpecEnv) clone() *SpecEnv {
	n := *e
	n.Vars = map[string]SV{}
	for k, v := range e.Vars {
		n.Vars[k] = v
	}
	return &n
}

func (e *SpecEnv) fail(format string, a ...interface{}) {
	panic(ErrSubset{"spec: " + fmt.Sprintf(format, a...)})
}

// ResolveType resolves a textual type reference.
func (e *SpecEnv) ResolveType(t string) types.Type {
	if e.FnScope != nil {
		// a type declared in the body of the function under contract (e.g. the local XML wrapper struct a
		// serialiser marshals): `x.(T)`, `typeIs`-free; pointer/slice prefixes are resolved around it.
		pre := ""
		base := t
		for strings.HasPrefix(base, "*") || strings.HasPrefix(base, "[]") {
			if base[0] == '*' {
				pre, base = pre+"*", base[1:]
			} else {
				pre, base = pre+"[]", base[2:]
			}
		}
		if lt := lookupLocalType(e.FnScope, base); lt != nil {
			var r types.Type = lt
			for i := len(pre); i > 0; {
				if pre[i-1] == '*' {
					r, i = types.NewPointer(r), i-1
				} else {
					r, i = types.NewSlice(r), i-2
				}
			}
			return r
		}
	}
	return resolveTypeText(e.Pkg, t)
}

// lookupLocalType finds the type named `name` declared in scope sc or a scope nested in it; a name declared
// more than once in different nested scopes is ambiguous and rejected.
func lookupLocalType(sc *types.Scope, name string) types.Type {
	var found []types.Type
	var walk func(s *types.Scope)
	walk = func(s *types.Scope) {
		if o, ok := s.Lookup(name).(*types.TypeName); ok {
			found = append(found, o.Type())
		}
		for i := 0; i < s.NumChildren(); i++ {
			walk(s.Child(i))
		}
	}
	walk(sc)
	if len(found) > 1 {
		panic(ErrSubset{"spec: local type " + name + " is declared more than once in the function"})
	}
	if len(found) == 1 {
		return found[0]
	}
	return nil
}

func resolveTypeText(pkg *types.Package, t string) types.Type {
	switch {
	case strings.HasPrefix(t, "*"):
		return types.NewPointer(resolveTypeText(pkg, t[1:]))
	case strings.HasPrefix(t, "[]"):
		return types.NewSlice(resolveTypeText(pkg, t[2:]))
	case strings.HasPrefix(t, "map["):
		// map[K]V (K without brackets)
		if i := strings.Index(t, "]"); i > 0 {
			return types.NewMap(resolveTypeText(pkg, t[4:i]), resolveTypeText(pkg, t[i+1:]))
		}
	}
	switch t {
	case "int":
		return types.Typ[types.Int]
	case "int64":
		return types.Typ[types.Int64]
	case "string":
		return types.Typ[types.String]
	case "bool":
		return types.Typ[types.Bool]
	case "float64":
		return types.Typ[types.Float64]
	case "byte", "rune":
		return types.Universe.Lookup(t).Type()
	case "uint8":
		return types.Typ[types.Uint8]
	case "int32":
		return types.Typ[types.Int32]
	case "uint":
		return types.Typ[types.Uint]
	case "uint32":
		return types.Typ[types.Uint32]
	case "uint64":
		return types.Typ[types.Uint64]
	case "Ref":
		return types.Typ[types.UnsafePointer]
	case "any":
		return types.NewInterfaceType(nil, nil)
	case "error":
		return types.Universe.Lookup("error").Type()
	}
	if o, ok := types.Universe.Lookup(t).(*types.TypeName); ok {
		// the remaining predeclared types (byte, uint8, int32, ...)
		return o.Type()
	}
	if i := strings.Index(t, "."); i >= 0 {
		pn, tn := t[:i], t[i+1:]
		for _, imp := range pkg.Imports() {
			if imp.Name() == pn {
				if o := imp.Scope().Lookup(tn); o != nil {
					return o.Type()
				}
			}
		}
		panic(ErrSubset{"spec: unknown type " + t})
	}
	if o := pkg.Scope().Lookup(t); o != nil {
		if _, ok := o.(*types.TypeName); ok {
			return o.Type()
		}
	}
	panic(ErrSubset{"spec: unknown type " + t})
}

func isStruct(t types.Type) bool {
	_, ok := t.Underlying().(*types.Struct)
	return ok
}

func derefStruct(t types.Type) (types.Type, bool) {
	if p, ok := t.Underlying().(*types.Pointer); ok {
		if isStruct(p.Elem()) {
			return p.Elem(), true
		}
	}
	return nil, false
}

// fieldAt finds field f within struct type root at flattened path prefix.
func fieldAt(root types.Type, path string, f string) (types.Type, bool) {
	cur := root
	if path != "" {
		for _, seg := range strings.Split(path, ".") {
			st := cur.Underlying().(*types.Struct)
			found := false
			for i := 0; i < st.NumFields(); i++ {
				if st.Field(i).Name() == seg {
					cur = st.Field(i).Type()
					found = true
					break
				}
			}
			if !found {
				return nil, false
			}
		}
	}
	st, ok := cur.Underlying().(*types.Struct)
	if !ok {
		return nil, false
	}
	for i := 0; i < st.NumFields(); i++ {
		if st.Field(i).Name() == f {
			return st.Field(i).Type(), true
		}
	}
	return nil, false
}

func joinPath(a, b string) string {
	if a == "" {
		return b
	}
	if b == "" {
		return a
	}
	return a + "." + b
}

// typeAtPath returns the type found at flattened path within root.
func typeAtPath(root types.Type, path string) types.Type {
	if path == "" {
		return root
	}
	i := strings.LastIndex(path, ".")
	var pre, last string
	if i < 0 {
		pre, last = "", path
	} else {
		pre, last = path[:i], path[i+1:]
	}
	t, ok := fieldAt(root, pre, last)
	if !ok {
		panic(ErrSubset{"typeAtPath " + path})
	}
	return t
}

// LoadLoc loads the value at location lv (leaf) or builds the struct value.
func (g *Gen) LoadLoc(lv *LV, view HeapView) string {
	t := typeAtPath(lv.Root, lv.Path)
	if isStruct(t) {
		name := g.TE.SortOf(t)
		st := t.Underlying().(*types.Struct)
		var parts []string
		for i := 0; i < st.NumFields(); i++ {
			f := st.Field(i)
			if _, isA := f.Type().Underlying().(*types.Array); isA {
				continue
			}
			sub := &LV{Root: lv.Root, Path: joinPath(lv.Path, f.Name()), Base: lv.Base}
			parts = append(parts, g.LoadLoc(sub, view))
		}
		if len(parts) == 0 {
			parts = []string{"0"}
		}
		return fmt.Sprintf("(mk_%s %s)", name, strings.Join(parts, " "))
	}
	h := g.TE.FieldHeap(lv.Root, lv.Path, g.TE.SortOf(t))
	return fmt.Sprintf("(select %s %s)", view.Heap(h), lv.Base)
}

func (e *SpecEnv) Eval(x SExpr) SV {
	switch x := x.(type) {
	case SIdent:
		if v, ok := e.Vars[x.Name]; ok {
			return v
		}
		if x.Name == "nil" {
			return SV{Term: "nil", Typ: types.Typ[types.UntypedNil]}
		}
		if o := e.Pkg.Scope().Lookup(x.Name); o != nil {
			if c, ok := o.(*types.Const); ok {
				return e.constVal(c)
			}
			if v, ok := o.(*types.Var); ok && !isStruct(v.Type()) {
				// package-level variable: its current value
				h := e.G.TE.GlobalHeap(e.Pkg.Name(), v.Name(), v.Type())
				return SV{Term: e.Cur.Heap(h), Typ: v.Type()}
			}
		}
		if e.G.CS != nil && e.G.CS.GhostNames[x.Name] {
			// ghost integer constant: one SMT constant per name (binding by name between caller and callee)
			return SV{Term: e.G.UF("ghost_"+x.Name, nil, SInt), Typ: types.Typ[types.Int]}
		}
		e.fail("unknown identifier %s", x.Name)
	case SIntLit:
		return SV{Term: x.V, Typ: types.Typ[types.Int]}
	case SRealLit:
		// a decimal literal denotes the float64 the Go compiler would use for it (exact rational of that double)
		if f, err := strconv.ParseFloat(x.V, 64); err == nil {
			if r := new(big.Rat).SetFloat64(f); r != nil {
				t := fmt.Sprintf("(/ %s.0 %s.0)", new(big.Int).Abs(r.Num()).String(), r.Denom().String())
				if r.Denom().IsInt64() && r.Denom().Int64() == 1 {
					t = new(big.Int).Abs(r.Num()).String() + ".0"
				}
				if r.Sign() < 0 {
					t = "(- " + t + ")"
				}
				return SV{Term: t, Typ: types.Typ[types.Float64]}
			}
		}
		return SV{Term: x.V, Typ: types.Typ[types.Float64]}
	case SStrLit:
		return SV{Term: e.G.StrLit(x.V), Typ: types.Typ[types.String]}
	case SBoolLit:
		if x.V {
			return SV{Term: "true", Typ: types.Typ[types.Bool]}
		}
		return SV{Term: "false", Typ: types.Typ[types.Bool]}
	case SUnary:
		v := e.Eval(x.X)
		switch x.Op {
		case "!":
			return SV{Term: "(not " + v.Term + ")", Typ: types.Typ[types.Bool]}
		case "-":
			return SV{Term: "(- " + v.Term + ")", Typ: v.Typ}
		case "&":
			if v.Loc != nil && v.Loc.Path == "" {
				return SV{Term: v.Loc.Base, Typ: types.NewPointer(v.Typ)}
			}
			e.fail("& of non-location %s", x.X)
		}
	case SBinary:
		return e.evalBinary(x)
	case SSelect:
		// package-qualified constant?
		if id, ok := x.X.(SIdent); ok {
			if _, isVar := e.Vars[id.Name]; !isVar {
				for _, imp := range e.Pkg.Imports() {
					if imp.Name() == id.Name {
						if c, ok := imp.Scope().Lookup(x.F).(*types.Const); ok {
							return e.constVal(c)
						}
					}
				}
			}
		}
		v := e.Eval(x.X)
		return e.selectField(v, x.F)
	case SIndex:
		v := e.Eval(x.X)
		i := e.Eval(x.I)
		return e.index(v, i)
	case SSliceE:
		v := e.Eval(x.X)
		if isString(v.Typ) {
			// s[lo:hi] of a string: the executor's Str_sub
			lo := "0"
			if x.Lo != nil {
				lo = e.Eval(x.Lo).Term
			}
			hi := "(Str_len " + v.Term + ")"
			if x.Hi != nil {
				hi = e.Eval(x.Hi).Term
			}
			return SV{Term: fmt.Sprintf("(Str_sub %s %s %s)", v.Term, lo, hi), Typ: v.Typ}
		}
		if _, ok := v.Typ.Underlying().(*types.Slice); !ok {
			e.fail("slice expr on non-slice")
		}
		lo := "0"
		if x.Lo != nil {
			lo = e.Eval(x.Lo).Term
		}
		hi := "(slen " + v.Term + ")"
		if x.Hi != nil {
			hi = e.Eval(x.Hi).Term
		}
		return SV{Term: fmt.Sprintf("(mkslice (sarr %s) (+ (soff %s) %s) (- %s %s) (- (scap %s) %s))", v.Term, v.Term, lo, hi, lo, v.Term, lo), Typ: v.Typ}
	case SCall:
		return e.evalCall(x)
	case STypeAssert:
		v := e.Eval(x.X)
		t := e.ResolveType(x.T.Text)
		return SV{Term: e.G.ifacePayload(v.Term, t), Typ: t}
	case SQuant:
		ne := e.clone()
		var bs []string
		var guards []string
		for _, b := range x.Vars {
			t := e.ResolveType(b.T.Text)
			s := e.G.TE.SortOf(t)
			nm := "q_" + b.Name
			bs = append(bs, fmt.Sprintf("(%s %s)", nm, s))
			ne.Vars[b.Name] = SV{Term: nm, Typ: t}
			_ = guards
		}
		body := ne.Eval(x.Body)
		q := "exists"
		if x.Forall {
			q = "forall"
		}
		bt := body.Term
		if len(x.Pats) > 0 {
			var ps []string
			for _, p := range x.Pats {
				if c, ok := p.(SCall); ok && c.Fn == "$multi" {
					var ts []string
					for _, a := range c.Args {
						ts = append(ts, ne.patOf(a))
					}
					ps = append(ps, "("+strings.Join(ts, " ")+")")
					continue
				}
				ps = append(ps, "("+ne.patOf(p)+")")
			}
			bt = fmt.Sprintf("(! %s :pattern %s)", bt, strings.Join(ps, " :pattern "))
		}
		return SV{Term: fmt.Sprintf("(%s (%s) %s)", q, strings.Join(bs, " "), bt), Typ: types.Typ[types.Bool]}
	}
	e.fail("cannot evaluate %s", x)
	return SV{}
}

// patOf: the pattern term of a trigger expression. has(m, k) evaluates to a conjunction (non-nil map and key in its
// domain), which cannot be a pattern: its trigger is the domain lookup itself.
func (e *SpecEnv) patOf(x SExpr) string {
	if c, ok := x.(SCall); ok && c.Fn == "has" && len(c.Args) == 2 {
		m, k := e.Eval(c.Args[0]), e.Eval(c.Args[1])
		dom, _, _, _ := e.G.TE.MapHeaps(m.Typ)
		return fmt.Sprintf("(select (select %s %s) %s)", e.Cur.Heap(dom), m.Term, k.Term)
	}
	return patTerm(e.Eval(x))
}

// patTerm: the term of a trigger expression; a struct location (s[i] of a struct-element slice, *p) is
// represented by its reference (an empty :pattern () is rejected by cvc5 and ignored by z3).
func patTerm(v SV) string {
	if v.Term == "" && v.Loc != nil {
		return v.Loc.Base
	}
	return v.Term
}

func (e *SpecEnv) constVal(c *types.Const) SV {
	v := c.Val()
	switch v.Kind() {
	case constant.Int:
		s := v.ExactString()
		if strings.HasPrefix(s, "-") {
			s = "(- " + s[1:] + ")"
		}
		return SV{Term: s, Typ: c.Type()}
	case constant.String:
		return SV{Term: e.G.StrLit(constant.StringVal(v)), Typ: c.Type()}
	case constant.Bool:
		return SV{Term: fmt.Sprint(constant.BoolVal(v)), Typ: c.Type()}
	case constant.Float:
		return SV{Term: realLit(v), Typ: c.Type()}
	}
	e.fail("constant kind")
	return SV{}
}

func realLit(v constant.Value) string {
	// exact rational
	n, d := constant.Num(v), constant.Denom(v)
	ns, ds := n.ExactString(), d.ExactString()
	neg := false
	if strings.HasPrefix(ns, "-") {
		neg = true
		ns = ns[1:]
	}
	t := fmt.Sprintf("(/ %s.0 %s.0)", ns, ds)
	if ds == "1" {
		t = ns + ".0"
	}
	if neg {
		t = "(- " + t + ")"
	}
	return t
}

func (e *SpecEnv) selectField(v SV, f string) SV {
	var lv *LV
	if v.Loc != nil {
		lv = v.Loc
	} else if st, ok := derefStruct(v.Typ); ok {
		lv = &LV{Root: st, Path: "", Base: v.Term, View: e.Cur}
	} else if isStruct(v.Typ) && v.Term != "" {
		// a struct VALUE (e.g. a result returned by value): project the field out of the datatype term
		ft, ok := fieldAt(v.Typ, "", f)
		if !ok {
			e.fail("no field %s in %v", f, v.Typ)
		}
		return SV{Term: fmt.Sprintf("(%s_%s %s)", e.G.TE.SortOf(v.Typ), f, v.Term), Typ: ft}
	} else {
		e.fail("field %s of non-struct %v", f, v.Typ)
	}
	ft, ok := fieldAt(lv.Root, lv.Path, f)
	if !ok {
		e.fail("no field %s in %v", f, lv.Root)
	}
	nl := &LV{Root: lv.Root, Path: joinPath(lv.Path, f), Base: lv.Base, View: lv.View}
	if nl.View == nil {
		nl.View = e.Cur
	}
	if isStruct(ft) {
		return SV{Typ: ft, Loc: nl}
	}
	return SV{Term: e.G.LoadLoc(nl, nl.View), Typ: ft}
}

func (e *SpecEnv) index(v, i SV) SV {
	switch u := v.Typ.Underlying().(type) {
	case *types.Slice:
		ref := fmt.Sprintf("(selem %s %s)", v.Term, i.Term)
		if isStruct(u.Elem()) {
			return SV{Typ: u.Elem(), Loc: &LV{Root: u.Elem(), Path: "", Base: ref, View: e.Cur}}
		}
		h := e.G.TE.CellHeap(u.Elem())
		return SV{Term: fmt.Sprintf("(select %s %s)", e.Cur.Heap(h), ref), Typ: u.Elem()}
	case *types.Map:
		_, val, _, _ := e.G.TE.MapHeaps(v.Typ)
		return SV{Term: fmt.Sprintf("(select (select %s %s) %s)", e.Cur.Heap(val), v.Term, i.Term), Typ: u.Elem()}
	case *types.Basic:
		if u.Info()&types.IsString != 0 {
			return SV{Term: fmt.Sprintf("(Str_at %s %s)", v.Term, i.Term), Typ: types.Typ[types.Int]}
		}
	}
	e.fail("index of %v", v.Typ)
	return SV{}
}

func isReal(t types.Type) bool {
	if t == nil {
		return false
	}
	b, ok := t.Underlying().(*types.Basic)
	return ok && b.Info()&types.IsFloat != 0
}

func isString(t types.Type) bool {
	if t == nil {
		return false
	}
	b, ok := t.Underlying().(*types.Basic)
	return ok && b.Info()&types.IsString != 0
}

func isIface(t types.Type) bool {
	if t == nil {
		return false
	}
	_, ok := t.Underlying().(*types.Interface)
	return ok
}

func isSliceT(t types.Type) bool {
	if t == nil {
		return false
	}
	_, ok := t.Underlying().(*types.Slice)
	return ok
}

func isUntypedNil(t types.Type) bool {
	b, ok := t.(*types.Basic)
	return ok && b.Kind() == types.UntypedNil
}

func (e *SpecEnv) evalBinary(x SBinary) SV {
	boolT := types.Typ[types.Bool]
	switch x.Op {
	case "&&":
		return SV{Term: "(and " + e.Eval(x.X).Term + " " + e.Eval(x.Y).Term + ")", Typ: boolT}
	case "||":
		return SV{Term: "(or " + e.Eval(x.X).Term + " " + e.Eval(x.Y).Term + ")", Typ: boolT}
	case "==>":
		return SV{Term: "(=> " + e.Eval(x.X).Term + " " + e.Eval(x.Y).Term + ")", Typ: boolT}
	case "<==>":
		return SV{Term: "(= " + e.Eval(x.X).Term + " " + e.Eval(x.Y).Term + ")", Typ: boolT}
	}
	a, b := e.Eval(x.X), e.Eval(x.Y)
	switch x.Op {
	case "==", "!=":
		t := e.equal(a, b)
		if x.Op == "!=" {
			t = "(not " + t + ")"
		}
		return SV{Term: t, Typ: boolT}
	case "<", "<=", ">", ">=":
		if isString(a.Typ) {
			e.fail("string ordering in spec")
		}
		at, bt := e.coerceNum(a, b)
		return SV{Term: fmt.Sprintf("(%s %s %s)", x.Op, at, bt), Typ: boolT}
	case "+":
		if isString(a.Typ) {
			return SV{Term: fmt.Sprintf("(Str_cat %s %s)", a.Term, b.Term), Typ: a.Typ}
		}
		at, bt := e.coerceNum(a, b)
		return SV{Term: fmt.Sprintf("(+ %s %s)", at, bt), Typ: numType(a, b)}
	case "-":
		at, bt := e.coerceNum(a, b)
		return SV{Term: fmt.Sprintf("(- %s %s)", at, bt), Typ: numType(a, b)}
	case "*":
		at, bt := e.coerceNum(a, b)
		return SV{Term: fmt.Sprintf("(* %s %s)", at, bt), Typ: numType(a, b)}
	case "/":
		at, bt := e.coerceNum(a, b)
		if isReal(a.Typ) || isReal(b.Typ) {
			return SV{Term: fmt.Sprintf("(/ %s %s)", at, bt), Typ: numType(a, b)}
		}
		return SV{Term: fmt.Sprintf("(godiv %s %s)", at, bt), Typ: a.Typ}
	case "%":
		return SV{Term: fmt.Sprintf("(gomod %s %s)", a.Term, b.Term), Typ: a.Typ}
	}
	e.fail("binary op %s", x.Op)
	return SV{}
}

func numType(a, b SV) types.Type {
	if isReal(a.Typ) {
		return a.Typ
	}
	if isReal(b.Typ) {
		return b.Typ
	}
	return a.Typ
}

func (e *SpecEnv) coerceNum(a, b SV) (string, string) {
	at, bt := a.Term, b.Term
	if isReal(a.Typ) && !isReal(b.Typ) {
		bt = "(to_real " + bt + ")"
	}
	if isReal(b.Typ) && !isReal(a.Typ) {
		at = "(to_real " + at + ")"
	}
	return at, bt
}

// equal builds equality, expanding struct locations field-wise and handling nil.
func (e *SpecEnv) equal(a, b SV) string {
	if a.Loc != nil && b.Loc != nil {
		return e.G.structEq(a.Loc, b.Loc, e.Cur)
	}
	if a.Loc != nil || b.Loc != nil {
		e.fail("comparison of struct location with value")
	}
	if isUntypedNil(b.Typ) {
		return e.nilTest(a)
	}
	if isUntypedNil(a.Typ) {
		return e.nilTest(b)
	}
	at, bt := a.Term, b.Term
	if isReal(a.Typ) != isReal(b.Typ) {
		at, bt = e.coerceNum(a, b)
	}
	return fmt.Sprintf("(= %s %s)", at, bt)
}

func (e *SpecEnv) nilTest(a SV) string {
	switch {
	case isIface(a.Typ):
		return fmt.Sprintf("(= (itag %s) 0)", a.Term)
	case isSliceT(a.Typ):
		return fmt.Sprintf("(= (sarr %s) 0)", a.Term)
	}
	return fmt.Sprintf("(= %s nil)", a.Term)
}

// structEq: leaf-wise equality of two struct locations (each read through its own view).
func (g *Gen) structEq(a, b *LV, def HeapView) string {
	ta := typeAtPath(a.Root, a.Path)
	var parts []string
	for _, l := range g.TE.Leaves(ta, "") {
		la := &LV{Root: a.Root, Path: joinPath(a.Path, l.Path), Base: a.Base}
		lb := &LV{Root: b.Root, Path: joinPath(b.Path, l.Path), Base: b.Base}
		va, vb := a.View, b.View
		if va == nil {
			va = def
		}
		if vb == nil {
			vb = def
		}
		parts = append(parts, fmt.Sprintf("(= %s %s)", g.LoadLoc(la, va), g.LoadLoc(lb, vb)))
	}
	if len(parts) == 0 {
		return "true"
	}
	return "(and " + strings.Join(parts, " ") + ")"
}

type oldView struct{ e *SpecEnv }

func (e *SpecEnv) evalCall(x SCall) SV {
	boolT := types.Typ[types.Bool]
	intT := types.Typ[types.Int]
	arg := func(i int) SV {
		if i >= len(x.Args) {
			e.fail("%s: missing argument %d", x.Fn, i)
		}
		return e.Eval(x.Args[i])
	}
	switch x.Fn {
	case "old":
		if e.Old == nil {
			e.fail("old() not available here")
		}
		ne := e.clone()
		ne.Cur = e.Old
		v := ne.Eval(x.Args[0])
		return v
	case "loopentry":
		// loopentry(e): e evaluated on the heap with which the loop was entered. Like old(), it gives recursive spec
		// functions over data the loop does not write a heap term that never changes, so facts about them survive
		// the loop's own writes (to other memory) without induction; a frame invariant links it to the current heap.
		if e.LoopPre == nil {
			e.fail("loopentry() is available in loop clauses only")
		}
		ne := e.clone()
		ne.Cur = e.LoopPre
		return ne.Eval(x.Args[0])
	case "len":
		v := arg(0)
		switch v.Typ.Underlying().(type) {
		case *types.Slice:
			return SV{Term: "(slen " + v.Term + ")", Typ: intT}
		case *types.Basic:
			return SV{Term: "(Str_len " + v.Term + ")", Typ: intT}
		case *types.Map:
			return SV{Term: e.G.mapLen(v.Typ, v.Term, e.Cur), Typ: intT}
		}
		e.fail("len of %v", v.Typ)
	case "cap":
		v := arg(0)
		return SV{Term: "(scap " + v.Term + ")", Typ: intT}
	case "$dcsbody":
		// body of a generated dcs_T: the field-wise expansion for the struct both arguments point to
		a, b := arg(0), arg(1)
		st, ok := derefStruct(a.Typ)
		if !ok {
			e.fail("$dcsbody of %v", a.Typ)
		}
		la := SV{Typ: st, Loc: &LV{Root: st, Path: "", Base: a.Term, View: e.Cur}}
		lb := SV{Typ: st, Loc: &LV{Root: st, Path: "", Base: b.Term, View: e.Cur}}
		ne := e.clone()
		ne.DcsOf = st
		t := ne.deepcopy(la, lb, nil, 0)
		return SV{Term: t, Typ: boolT}
	case "deepcopy":
		// deepcopy(a, b): a is a structurally equal copy of b that shares no pointer or backing array with
		// anything that existed at function entry; expanded from the Go type (XMLName fields excluded).
		a, b := arg(0), arg(1)
		return SV{Term: e.deepcopy(a, b, nil, 0), Typ: boolT}
	case "deepcopyAbove":
		// deepcopyAbove(a, b, n): deepcopy with an explicit lower bound n for the memory the copy is made of
		a, b, n := arg(0), arg(1), arg(2)
		if _, inSpec := e.Cur.(*recView); inSpec {
			e.fail("deepcopyAbove() inside a spec function")
		}
		ne := e.clone()
		ne.Next0 = n.Term
		return SV{Term: ne.deepcopy(a, b, nil, 0), Typ: boolT}
	case "loopBound":
		// loopBound(): the allocation counter when the enclosing loop was entered (loop invariants only):
		// everything allocated by the iterations lies at or above it, everything allocated before below it
		if len(x.Args) == 1 {
			// loopBound(n): entry bound of the n-th loop of the function (rebind expressions)
			lit, ok := x.Args[0].(SIntLit)
			if !ok {
				e.fail("loopBound(n) wants an integer literal")
			}
			sv, ok := e.Vars["#loopbound"+lit.V]
			if !ok {
				e.fail("loopBound(%s): the loop has not been entered here", lit.V)
			}
			return sv
		}
		sv, ok := e.Vars["#loopbound"]
		if !ok {
			e.fail("loopBound() outside a loop invariant")
		}
		return sv
	case "atLoop":
		// atLoop(n, e): e read from the memory as it was when the n-th loop of the function was (last) entered; the variables
		// in e keep their current values. Lets an invariant say "this field still holds what it held when the loop started".
		if len(x.Args) != 2 {
			e.fail("atLoop(n, e)")
		}
		lit, ok := x.Args[0].(SIntLit)
		if !ok {
			e.fail("atLoop(n, e) wants an integer literal")
		}
		hv, ok := e.LoopEntry[lit.V]
		if !ok {
			e.fail("atLoop(%s, ...): the loop has not been entered here", lit.V)
		}
		ne := e.clone()
		ne.Cur = hv
		return ne.Eval(x.Args[1])
	case "rangeLen":
		// rangeLen(): in an invariant of a "for i := range slice" loop, the length of the slice taken when the loop started
		sv, ok := e.Vars["#rangelen"]
		if !ok {
			e.fail("rangeLen() outside the invariant of a range-over-slice loop")
		}
		return sv
	case "iterBound":
		// iterBound(n): allocation counter at the head of the n-th loop of the function, current iteration
		if len(x.Args) != 1 {
			e.fail("iterBound(n) wants a loop ordinal")
		}
		lit, ok := x.Args[0].(SIntLit)
		if !ok {
			e.fail("iterBound(n) wants an integer literal")
		}
		sv, ok := e.Vars["#iterbound"+lit.V]
		if !ok {
			e.fail("iterBound(%s): the loop has not been entered here", lit.V)
		}
		return sv
	case "allocBound":
		// every array/object id allocated so far is below this bound
		return SV{Term: e.Cur.Next(), Typ: intT}
	case "arr":
		// identity of the backing array of a slice (0 for nil)
		v := arg(0)
		return SV{Term: "(sarr " + v.Term + ")", Typ: intT}
	case "off":
		v := arg(0)
		return SV{Term: "(soff " + v.Term + ")", Typ: intT}
	case "ite":
		c, a, b := arg(0), arg(1), arg(2)
		if a.Loc != nil || b.Loc != nil {
			e.fail("ite over struct locations")
		}
		at, bt := a.Term, b.Term
		if isReal(a.Typ) != isReal(b.Typ) {
			at, bt = e.coerceNum(a, b)
		}
		t := a.Typ
		if isUntypedNil(t) {
			t = b.Typ
		}
		return SV{Term: fmt.Sprintf("(ite %s %s %s)", c.Term, at, bt), Typ: t}
	case "fresh":
		// allocated after function entry (and not nil)
		v := arg(0)
		r := e.refOf(v)
		return SV{Term: fmt.Sprintf("(and (not (= %s nil)) (not (alloc %s %s)))", r, r, e.entryBound()), Typ: boolT}
	case "freshArr":
		v := arg(0)
		// the backing array (if any) was allocated after function entry
		return SV{Term: fmt.Sprintf("(or (= (sarr %s) 0) (>= (sarr %s) %s))", v.Term, v.Term, e.Next0), Typ: boolT}
	case "allocated":
		v := arg(0)
		r := e.refOf(v)
		return SV{Term: fmt.Sprintf("(alloc %s %s)", r, e.Old.Next()), Typ: boolT}
	case "has":
		m, k := arg(0), arg(1)
		dom, _, _, _ := e.G.TE.MapHeaps(m.Typ)
		return SV{Term: fmt.Sprintf("(and (not (= %s nil)) (select (select %s %s) %s))", m.Term, e.Cur.Heap(dom), m.Term, k.Term), Typ: boolT}
	case "ioFailed":
		fail, _, _, _, _, _ := ioHeaps(e.G)
		return SV{Term: e.Cur.Heap(fail), Typ: boolT}
	case "isOpen":
		_, open, _, _, _, _ := ioHeaps(e.G)
		return SV{Term: fmt.Sprintf("(select %s %s)", e.Cur.Heap(open), e.refOf(arg(0))), Typ: boolT}
	case "openCount":
		_, _, count, _, _, _ := ioHeaps(e.G)
		return SV{Term: e.Cur.Heap(count), Typ: intT}
	case "zipHas":
		_, _, _, zdom, _, _ := ioHeaps(e.G)
		return SV{Term: fmt.Sprintf("(select %s %s)", e.Cur.Heap(zdom), arg(0).Term), Typ: boolT}
	case "zipData":
		_, _, _, _, zdata, _ := ioHeaps(e.G)
		return SV{Term: fmt.Sprintf("(select %s %s)", e.Cur.Heap(zdata), arg(0).Term), Typ: types.NewSlice(types.Typ[types.Byte])}
	case "sbContent":
		// sbContent(b): the text accumulated so far in the strings.Builder b (ghost)
		return SV{Term: fmt.Sprintf("(select %s %s)", e.Cur.Heap(sbHeap(e.G)), e.sbKey(arg(0))), Typ: types.Typ[types.String]}
	case "fieldsLen", "fieldsAt", "splitLen", "splitAt":
		// the executor's symbols for strings.Fields(s) / strings.Split(s, sep): number of pieces, i-th piece
		sym, n := "strings_Fields", 1
		if strings.HasPrefix(x.Fn, "split") {
			sym, n = "strings_Split", 2
		}
		lenF, atF := strListUFs(e.G, sym, n)
		var ts []string
		for i := 0; i < n; i++ {
			ts = append(ts, arg(i).Term)
		}
		if strings.HasSuffix(x.Fn, "Len") {
			return SV{Term: fmt.Sprintf("(%s %s)", lenF, strings.Join(ts, " ")), Typ: intT}
		}
		return SV{Term: fmt.Sprintf("(%s %s %s)", atF, strings.Join(ts, " "), arg(n).Term), Typ: types.Typ[types.String]}
	case "reFindString":
		// reFindString(pattern, s): the executor's symbol for regexp.MustCompile(pattern).FindString(s)
		return SV{Term: fmt.Sprintf("(%s %s %s)", reFindUF(e.G), arg(0).Term, arg(1).Term), Typ: types.Typ[types.String]}
	case "buildersUnchangedExcept":
		// buildersUnchangedExcept(b1, b2, ...): every strings.Builder that existed at function entry, other than the
		// listed ones, has the content it had at entry (the frame of the ghost builder contents; loop invariants)
		if e.Old == nil {
			e.fail("buildersUnchangedExcept() needs an entry state")
		}
		oe := e.clone()
		oe.Cur = e.Old
		var keys []string
		for i := range x.Args {
			keys = append(keys, oe.sbKey(oe.Eval(x.Args[i])))
		}
		return SV{Term: sbFrame(e.Old.Heap(sbHeap(e.G)), e.Cur.Heap(sbHeap(e.G)), e.Old.Next(), keys), Typ: boolT}
	case "evCount":
		// evCount("name"): number of events in the named ghost sequence
		id, ok := x.Args[0].(SStrLit)
		if !ok {
			e.fail("evCount wants a string literal")
		}
		n, _ := gseqHeaps(e.G, id.V)
		return SV{Term: e.Cur.Heap(n), Typ: intT}
	case "evAt":
		id, ok := x.Args[0].(SStrLit)
		if !ok {
			e.fail("evAt wants a string literal")
		}
		_, sq := gseqHeaps(e.G, id.V)
		return SV{Term: fmt.Sprintf("(select %s %s)", e.Cur.Heap(sq), arg(1).Term), Typ: types.NewInterfaceType(nil, nil)}
	case "xmlRem":
		// ghost: number of tokens the xml decoder can still deliver (finite input)
		return SV{Term: e.Cur.Heap(xmlRemHeap(e.G)), Typ: intT}
	case "xmlPos":
		// ghost: number of tokens the xml decoder has delivered so far (position in the fixed token sequence)
		return SV{Term: e.Cur.Heap(xmlPosHeap(e.G)), Typ: intT}
	case "xmlTok":
		// the token at position i of the fixed token sequence (an interface value: xmlTok(i).(xml.StartElement).Attr ...)
		return SV{Term: fmt.Sprintf("(%s %s)", xmlTokUF(e.G), arg(0).Term), Typ: types.NewInterfaceType(nil, nil)}
	case "xmlDepth":
		// nesting depth before position i: (#StartElement - #EndElement) among the tokens [0,i)
		return SV{Term: fmt.Sprintf("(%s %s)", xmlDepthUF(e.G), arg(0).Term), Typ: intT}
	case "xmlOpen":
		// position of the start tag matching the end tag at position i (nesting guarantee of Token)
		xmlDepthUF(e.G)
		return SV{Term: fmt.Sprintf("(xml_open %s)", arg(0).Term), Typ: intT}
	case "tokIsStart", "tokIsEnd", "tokIsChar":
		n := map[string]string{"tokIsStart": "StartElement", "tokIsEnd": "EndElement", "tokIsChar": "CharData"}[x.Fn]
		return SV{Term: fmt.Sprintf("(= (itag (%s %s)) %d)", xmlTokUF(e.G), arg(0).Term, xmlTokTag(e.G, n)), Typ: boolT}
	case "tokLocal", "tokSpace":
		// Name.Local / Name.Space of the start or end tag at position i
		xp := xmlPkgOf(e.G)
		tk := fmt.Sprintf("(%s %s)", xmlTokUF(e.G), arg(0).Term)
		fld := map[string]string{"tokLocal": "Local", "tokSpace": "Space"}[x.Fn]
		ns := e.G.TE.SortOf(xp.Scope().Lookup("Name").Type())
		of := func(tn string) string {
			t := xp.Scope().Lookup(tn).Type()
			return fmt.Sprintf("(%s_%s (%s_Name %s))", ns, fld, e.G.TE.SortOf(t), e.G.ifacePayload(tk, t))
		}
		return SV{Term: fmt.Sprintf("(ite (= (itag %s) %d) %s %s)", tk, xmlTokTag(e.G, "StartElement"), of("StartElement"), of("EndElement")), Typ: types.Typ[types.String]}
	case "tokAttrs":
		// the Attr slice of the start tag at position i
		xp := xmlPkgOf(e.G)
		t := xp.Scope().Lookup("StartElement").Type()
		tk := fmt.Sprintf("(%s %s)", xmlTokUF(e.G), arg(0).Term)
		return SV{Term: fmt.Sprintf("(%s_Attr %s)", e.G.TE.SortOf(t), e.G.ifacePayload(tk, t)), Typ: types.NewSlice(xp.Scope().Lookup("Attr").Type())}
	case "tokStart":
		// the start tag at position i as a struct value (compare with a StartElement parameter field by field)
		xp := xmlPkgOf(e.G)
		t := xp.Scope().Lookup("StartElement").Type()
		tk := fmt.Sprintf("(%s %s)", xmlTokUF(e.G), arg(0).Term)
		return SV{Term: e.G.ifacePayload(tk, t), Typ: t}
	case "tokChars":
		// string(t) of the CharData token t at position i, as it was when the token was delivered
		return SV{Term: fmt.Sprintf("(%s %s)", xmlCharsUF(e.G), arg(0).Term), Typ: types.Typ[types.String]}
	case "encCount":
		// number of values accepted by xml Encode so far (ghost)
		n, _ := encHeaps(e.G)
		return SV{Term: e.Cur.Heap(n), Typ: intT}
	case "encAt":
		// the i-th value accepted by xml Encode (ghost sequence)
		_, seq := encHeaps(e.G)
		return SV{Term: fmt.Sprintf("(select %s %s)", e.Cur.Heap(seq), arg(0).Term), Typ: types.NewInterfaceType(nil, nil)}
	case "marshalCount":
		// number of successful xml.Marshal/MarshalIndent calls so far (ghost)
		n, _, _ := marshalHeaps(e.G)
		return SV{Term: e.Cur.Heap(n), Typ: intT}
	case "marshalAt":
		// the value handed to the i-th successful xml.Marshal/MarshalIndent call (ghost sequence)
		_, seq, _ := marshalHeaps(e.G)
		return SV{Term: fmt.Sprintf("(select %s %s)", e.Cur.Heap(seq), arg(0).Term), Typ: types.NewInterfaceType(nil, nil)}
	case "marshalTried":
		// number of xml.Marshal/MarshalIndent calls so far, accepted or refused (ghost)
		n, _ := marshalTryHeaps(e.G)
		return SV{Term: e.Cur.Heap(n), Typ: intT}
	case "marshalTriedAt":
		// the value handed to the i-th xml.Marshal/MarshalIndent call, accepted or refused (ghost sequence)
		_, seq := marshalTryHeaps(e.G)
		return SV{Term: fmt.Sprintf("(select %s %s)", e.Cur.Heap(seq), arg(0).Term), Typ: types.NewInterfaceType(nil, nil)}
	case "marshalOut":
		// the bytes returned by the i-th successful xml.Marshal/MarshalIndent call (ghost sequence)
		_, _, out := marshalHeaps(e.G)
		// []byte as the source spells it (the universe's byte, whose cell heap is M_byte; types.Typ[types.Byte] is uint8)
		return SV{Term: fmt.Sprintf("(select %s %s)", e.Cur.Heap(out), arg(0).Term), Typ: types.NewSlice(types.Universe.Lookup("byte").Type())}
	case "seen":
		// seen(k): key k has been produced by the enclosing range-over-map loop
		sv, ok := e.Vars["#seen"]
		if !ok {
			e.fail("seen() outside a range-over-map loop")
		}
		return SV{Term: fmt.Sprintf("(select %s %s)", sv.Term, arg(0).Term), Typ: boolT}
	case "seenCount":
		// seenCount(): number of keys the enclosing range-over-map loop has produced so far
		sv, ok := e.Vars["#seenN"]
		if !ok {
			e.fail("seenCount() outside a range-over-map loop")
		}
		return SV{Term: sv.Term, Typ: intT}
	case "seenKey":
		// seenKey(j): the j-th key produced by the enclosing range-over-map loop (ghost; meaningful for 0 <= j < seenCount())
		sv, ok := e.Vars["#seenKey"]
		if !ok {
			e.fail("seenKey() outside a range-over-map loop")
		}
		return SV{Term: fmt.Sprintf("(select %s %s)", sv.Term, arg(0).Term), Typ: sv.Typ}
	case "seenPos":
		// seenPos(k): the position at which key k was produced (ghost; meaningful for seen(k))
		sv, ok := e.Vars["#seenPos"]
		if !ok {
			e.fail("seenPos() outside a range-over-map loop")
		}
		return SV{Term: fmt.Sprintf("(select %s %s)", sv.Term, arg(0).Term), Typ: intT}
	case "typeIs":
		v := arg(0)
		id, ok := x.Args[1].(SStrLit)
		if !ok {
			e.fail("typeIs wants a string literal type")
		}
		t := e.ResolveType(id.V)
		return SV{Term: fmt.Sprintf("(= (itag %s) %d)", v.Term, e.G.TE.Tag(t)), Typ: boolT}
	case "string":
		// conversion between string-kinded types (named string types share the Str sort)
		v := arg(0)
		if !isString(v.Typ) {
			e.fail("string() of non-string %v", v.Typ)
		}
		return SV{Term: v.Term, Typ: types.Typ[types.String]}
	case "sprintf":
		return e.evalSprintf(x)
	case "itoa":
		return SV{Term: "(itoa " + arg(0).Term + ")", Typ: types.Typ[types.String]}
	case "atoi":
		return SV{Term: "(atoi " + arg(0).Term + ")", Typ: intT}
	case "atoiOK":
		return SV{Term: "(atoi_ok " + arg(0).Term + ")", Typ: boolT}
	case "zfLen":
		// zfLen(f): number of bytes of the zip entry f (*zip.File)
		return SV{Term: "(" + e.G.UF("zf_len", []string{"Ref"}, SInt) + " " + arg(0).Term + ")", Typ: intT}
	case "zfByte":
		bt := types.Universe.Lookup("byte").Type()
		return SV{Term: "(" + e.G.UF("zf_byte", []string{"Ref", SInt}, e.G.TE.SortOf(bt)) + " " + arg(0).Term + " " + arg(1).Term + ")", Typ: bt}
	case "parseFloat64":
		return SV{Term: "(pfloat " + arg(0).Term + ")", Typ: types.Typ[types.Float64]}
	case "parseFloat64OK":
		return SV{Term: "(pfloat_ok " + arg(0).Term + ")", Typ: boolT}
	case "real":
		v := arg(0)
		if isReal(v.Typ) {
			return v
		}
		return SV{Term: "(to_real " + v.Term + ")", Typ: types.Typ[types.Float64]}
	case "rnd":
		// nearest integer as used by "%.0f" (|rnd(x) - x| <= 1/2)
		v := arg(0)
		t := v.Term
		if !isReal(v.Typ) {
			t = "(to_real " + t + ")"
		}
		return SV{Term: "(rnd " + t + ")", Typ: intT}
	case "trunc":
		return SV{Term: "(trunc " + arg(0).Term + ")", Typ: intT}
	case "ref":
		return SV{Term: e.refOf(arg(0)), Typ: types.Typ[types.UnsafePointer]}
	case "sameSlice":
		a, b := arg(0), arg(1)
		return SV{Term: fmt.Sprintf("(= %s %s)", a.Term, b.Term), Typ: boolT}
	case "unchangedStruct":
		// unchangedStruct(loc): all leaves of the struct location equal in Old and Cur
		v := arg(0)
		lv := e.locOf(v)
		a := &LV{Root: lv.Root, Path: lv.Path, Base: lv.Base, View: e.Cur}
		b := &LV{Root: lv.Root, Path: lv.Path, Base: lv.Base, View: e.Old}
		return SV{Term: e.G.structEq(a, b, e.Cur), Typ: boolT}
	case "unchangedHeap":
		return SV{Term: e.G.unchangedAll(e.Old, e.Cur, nil), Typ: boolT}
	case "unchangedBelow":
		// unchangedBelow(b): every heap agrees with its entry version on every object/array whose id is below b
		return SV{Term: e.G.unchangedAllBound(e.Old, e.Cur, nil, arg(0).Term), Typ: boolT}
	case "above":
		// above(x, b): the object / backing array / map x refers to is nil (empty) or has an id >= b
		v, b := arg(0), arg(1)
		switch v.Typ.Underlying().(type) {
		case *types.Slice:
			return SV{Term: fmt.Sprintf("(or (= (sarr %s) 0) (>= (sarr %s) %s))", v.Term, v.Term, b.Term), Typ: boolT}
		case *types.Interface:
			return SV{Term: fmt.Sprintf("(or (= (iref %s) nil) (not (alloc (iref %s) %s)))", v.Term, v.Term, b.Term), Typ: boolT}
		}
		r := e.refOf(v)
		return SV{Term: fmt.Sprintf("(or (= %s nil) (not (alloc %s %s)))", r, r, b.Term), Typ: boolT}
	case "owned":
		// owned(x, b): everything reachable from x along the Go type (the traversal of deepcopy, shared fields
		// excepted) is nil or has an id >= b: the freshness half of deepcopy with an explicit bound
		a, b := arg(0), arg(1)
		ne := e.clone()
		if _, inSpec := e.Cur.(*recView); inSpec {
			e.fail("owned() inside a spec function")
		}
		ne.Next0 = b.Term
		return SV{Term: ne.deepcopy(a, a, nil, 0), Typ: boolT}
	case "elemOf":
		// elemOf(p, "T"): p points into an array whose elements are of struct type T (allocation tag)
		id, ok := x.Args[1].(SStrLit)
		if !ok {
			e.fail("elemOf wants a string literal type")
		}
		r := e.refOf(arg(0))
		return SV{Term: fmt.Sprintf("(and ((_ is elem) %s) (= (%s (earr %s)) %d))", r, e.G.idTagUF(), r, e.G.TE.Tag(e.ResolveType(id.V))), Typ: boolT}
	case "tagged":
		// tagged(s, "T"): the slice s is nil or its backing array holds elements of struct type T
		id, ok := x.Args[1].(SStrLit)
		if !ok {
			e.fail("tagged wants a string literal type")
		}
		v := arg(0)
		return SV{Term: fmt.Sprintf("(or (= (sarr %s) 0) (= (%s (sarr %s)) %d))", v.Term, e.G.idTagUF(), v.Term, e.G.TE.Tag(e.ResolveType(id.V))), Typ: boolT}
	case "live":
		// live(p): p is allocated now
		return SV{Term: fmt.Sprintf("(alloc %s %s)", e.refOf(arg(0)), e.Cur.Next()), Typ: boolT}
	case "isElem":
		// isElem(p): p points into a slice backing array (not a separately allocated object)
		return SV{Term: fmt.Sprintf("((_ is elem) %s)", e.refOf(arg(0))), Typ: boolT}
	case "objId":
		// objId(p): the allocation id of what p points to - the object's own id, the id of the backing array for a pointer
		// into a slice, 0 for nil. Ids are handed out in increasing order: objId(a) < objId(b) says a was allocated first.
		r := e.refOf(arg(0))
		return SV{Term: fmt.Sprintf("(ite ((_ is obj) %s) (oid %s) (ite ((_ is elem) %s) (earr %s) 0))", r, r, r, r), Typ: intT}
	case "arrOf":
		// arrOf(p): identity of the backing array p points into (meaningful when isElem(p); compare with arr(s))
		return SV{Term: fmt.Sprintf("(earr %s)", e.refOf(arg(0))), Typ: intT}
	case "deref":
		// deref(p): the value of the cell a pointer to a non-struct type points at (p of type *T; for slice
		// elements the cell that s[i] reads) - lets a frame clause speak about every cell of an element type:
		// forall p *any :: {deref(p)} allocated(p) && !(isElem(p) && arrOf(p) == old(arr(s))) ==> deref(p) == old(deref(p))
		v := arg(0)
		pt, ok := v.Typ.Underlying().(*types.Pointer)
		if !ok || isStruct(pt.Elem()) {
			e.fail("deref wants a pointer to a non-struct type, got %v", v.Typ)
		}
		h := e.G.TE.CellHeap(pt.Elem())
		return SV{Term: fmt.Sprintf("(select %s %s)", e.Cur.Heap(h), v.Term), Typ: pt.Elem()}
	case "unchangedExcept":
		// unchangedExcept("T.f", "U.g", ...): every heap but the listed is equal on allocated refs
		ex := map[string]bool{}
		for _, a := range x.Args {
			s, ok := a.(SStrLit)
			if !ok {
				e.fail("unchangedExcept wants string literals")
			}
			for _, h := range e.G.resolveHeapSpec(e.Pkg, s.V) {
				ex[h] = true
			}
		}
		return SV{Term: e.G.unchangedAll(e.Old, e.Cur, ex), Typ: boolT}
	}
	if strings.HasPrefix(x.Fn, "strings.") || strings.HasPrefix(x.Fn, "filepath.") {
		// library functions the executor models as uninterpreted pure functions: the same symbol in specs
		sym := strings.ReplaceAll(x.Fn, ".", "_")
		res := map[string]types.Type{"strings.Contains": boolT, "strings.HasPrefix": boolT, "strings.HasSuffix": boolT, "strings.EqualFold": boolT,
			"strings.Index": intT, "strings.Count": intT, "strings.LastIndex": intT}[x.Fn]
		if res == nil {
			res = types.Typ[types.String]
		}
		var sorts, ts []string
		for i := range x.Args {
			v := arg(i)
			sorts = append(sorts, e.G.TE.SortOf(v.Typ))
			ts = append(ts, v.Term)
		}
		uf := e.G.UF(sym, sorts, e.G.TE.SortOf(res))
		return SV{Term: fmt.Sprintf("(%s %s)", uf, strings.Join(ts, " ")), Typ: res}
	}
	if pf, ok := e.G.Pures[e.Pkg.Name()+"."+x.Fn]; ok {
		return e.callPure(pf, x)
	}
	if pf, ok := e.G.Pures[x.Fn]; ok {
		return e.callPure(pf, x)
	}
	if o := e.Pkg.Scope().Lookup(x.Fn); o != nil && len(x.Args) == 1 {
		// conversion to a named type of the package with the same representation (string-kinded, integer-kinded)
		if tn, ok := o.(*types.TypeName); ok {
			v := arg(0)
			if (isString(tn.Type()) && isString(v.Typ)) || (isInt(tn.Type()) && isInt(v.Typ)) {
				return SV{Term: v.Term, Typ: tn.Type()}
			}
		}
	}
	e.fail("unknown spec function %s", x.Fn)
	return SV{}
}

// sbKey: the ghost key of the strings.Builder v denotes (a first-class builder reference, or a builder that is a field
// of another object: the same interior key the executor uses).
func (e *SpecEnv) sbKey(v SV) string {
	if v.Loc != nil && v.Loc.Path != "" {
		return interiorKey(v.Loc.Base, v.Loc.Path)
	}
	return e.refOf(v)
}

func (e *SpecEnv) refOf(v SV) string {
	if v.Loc != nil {
		if v.Loc.Path != "" {
			e.fail("ref of interior location")
		}
		return v.Loc.Base
	}
	if isIface(v.Typ) {
		return "(iref " + v.Term + ")"
	}
	return v.Term
}

func (e *SpecEnv) locOf(v SV) *LV {
	if v.Loc != nil {
		return v.Loc
	}
	if st, ok := derefStruct(v.Typ); ok {
		return &LV{Root: st, Path: "", Base: v.Term, View: e.Cur}
	}
	e.fail("not a struct location")
	return nil
}


var deepcopyVarCtr int

// dcsName is the generated spec function "the struct at ref a is a deep copy of the struct at ref b".
func dcsName(t types.Type) string {
	n, ok := t.(*types.Named)
	if !ok {
		return ""
	}
	return "dcs_" + n.Obj().Name()
}

// deepcopy expands the structural-copy predicate for two values of the same static type.
// Named struct types go through generated spec functions dcs_T (recursive types get the fuel encoding).
func (e *SpecEnv) deepcopy(a, b SV, stack []types.Type, depth int) string {
	t := a.Typ
	if a.Loc != nil {
		t = typeAtPath(a.Loc.Root, a.Loc.Path)
	}
	// the outermost expansion inside the definition of dcs_T is T's own field list; every further
	// occurrence of a named struct type (T included) is a call of its dcs function
	top := false
	if e.DcsOf != nil && !e.dcsEntered {
		st := t
		if p, ok := t.Underlying().(*types.Pointer); ok {
			st = p.Elem()
		}
		if types.Identical(e.DcsOf, st) {
			top = true
			e.dcsEntered = true
		}
	}
	callDcs := func(st types.Type, ra, rb string) (string, bool) {
		name := dcsName(st)
		if name == "" {
			return "", false
		}
		nt := st.(*types.Named)
		pf, ok := e.G.Pures[nt.Obj().Pkg().Name()+"."+name]
		if !ok {
			return "", false
		}
		pt := types.NewPointer(st)
		v := e.callPureVals(pf, []SV{{Term: ra, Typ: pt}, {Term: rb, Typ: pt}})
		return v.Term, true
	}
	fieldsOf := func(av, bv SV, st types.Type) string {
		var parts []string
		str := st.Underlying().(*types.Struct)
		for i := 0; i < str.NumFields(); i++ {
			f := str.Field(i)
			if f.Name() == "XMLName" {
				continue
			}
			if _, isA := f.Type().Underlying().(*types.Array); isA {
				continue
			}
			fa, fb := e.selectField(av, f.Name()), e.selectField(bv, f.Name())
			if nt, ok := st.(*types.Named); ok {
				if _, shared := e.G.CS.Shared[nt.Obj().Name()+"."+f.Name()]; shared {
					parts = append(parts, e.equal(fa, fb))
					continue
				}
			}
			parts = append(parts, e.deepcopy(fa, fb, append(stack, t), depth+1))
		}
		if len(parts) == 0 {
			return "true"
		}
		return "(and " + strings.Join(parts, " ") + ")"
	}
	if a.Loc == nil && isStruct(t) {
		// a is a struct value (returned by value); b is a location, a pointer to it, or a value
		bv := b
		if b.Loc == nil {
			if st, ok := derefStruct(b.Typ); ok {
				bv = SV{Typ: st, Loc: &LV{Root: st, Path: "", Base: b.Term, View: e.Cur}}
			}
		}
		return fieldsOf(a, bv, t)
	}
	if a.Loc != nil { // struct location
		if a.Loc.Path == "" && b.Loc != nil && b.Loc.Path == "" && !top {
			if c, ok := callDcs(t, a.Loc.Base, b.Loc.Base); ok {
				return c
			}
		}
		for _, s := range stack {
			if types.Identical(s, t) {
				e.fail("deepcopy over recursive type %v without a generated spec function", t)
			}
		}
		return fieldsOf(a, b, t)
	}
	switch u := t.Underlying().(type) {
	case *types.Pointer:
		if !isStruct(u.Elem()) {
			e.fail("deepcopy of pointer to %v", u.Elem())
		}
		body, ok := "", false
		if !top {
			body, ok = callDcs(u.Elem(), a.Term, b.Term)
		}
		if !ok {
			for _, s := range stack {
				if types.Identical(s, t) {
					e.fail("deepcopy over recursive type %v without a generated spec function", t)
				}
			}
			body = fieldsOf(a, b, u.Elem())
		}
		return fmt.Sprintf("(and (= (= %s nil) (= %s nil)) (=> (not (= %s nil)) (and (not (alloc %s %s)) %s)))", a.Term, b.Term, a.Term, a.Term, e.entryBound(), body)
	case *types.Slice:
		deepcopyVarCtr++
		iv := fmt.Sprintf("q_dc%d", deepcopyVarCtr)
		ia := e.index(a, SV{Term: iv, Typ: types.Typ[types.Int]})
		ib := e.index(b, SV{Term: iv, Typ: types.Typ[types.Int]})
		body := e.deepcopy(ia, ib, append(stack, t), depth+1)
		return fmt.Sprintf("(and (= (slen %s) (slen %s)) (=> (> (slen %s) 0) (>= (sarr %s) %s)) (forall ((%s Int)) (! (=> (and (<= 0 %s) (< %s (slen %s))) %s) :pattern ((selem %s %s)))))", a.Term, b.Term, a.Term, a.Term, e.entryBound(), iv, iv, iv, a.Term, body, a.Term, iv)
	case *types.Basic:
		return fmt.Sprintf("(= %s %s)", a.Term, b.Term)
	}
	e.fail("deepcopy of %v not supported", t)
	return ""
}


// entryBound: allocation counter at function entry (inside spec functions: a parameter).
func (e *SpecEnv) entryBound() string {
	if rv, ok := e.Cur.(*recView); ok {
		rv.used["$next0"] = true
		return "hp_$next0"
	}
	return e.Next0
}

func isInt(t types.Type) bool {
	if t == nil {
		return false
	}
	b, ok := t.Underlying().(*types.Basic)
	return ok && b.Info()&types.IsInteger != 0
}

// fnScope: the types.Scope of a source function (nil for synthetic functions).
func fnScope(fn *ssa.Function) *types.Scope {
	if fn == nil {
		return nil
	}
	if o, ok := fn.Object().(*types.Func); ok && o != nil {
		return o.Scope()
	}
	return nil
}
