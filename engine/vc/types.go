// Package vc is govc: a verification-condition generator for a subset of Go,
// working on go/ssa of the real source tree and emitting SMT-LIB 2.
package vc

import (
	"fmt"
	"go/types"
	"sort"
	"strings"
)

// Sorts used in the SMT encoding.
const (
	SInt   = "Int"
	SBool  = "Bool"
	SReal  = "Real"
	SStr   = "Str"
	SRef   = "Ref"
	SSlice = "Slice"
	SIface = "Iface"
)

// ErrSubset is raised (by panic) when the translator meets something outside
// the modelled subset. The function is then reported as outside-subset.
type ErrSubset struct{ Msg string }

func (e ErrSubset) Error() string { return e.Msg }

func subsetf(format string, a ...interface{}) {
	panic(ErrSubset{fmt.Sprintf(format, a...)})
}

// TypeEnv knows how Go types map to sorts, heaps and datatypes.
type TypeEnv struct {
	structName map[*types.Struct]string // struct -> sanitized name
	structByNm map[string]*types.Struct
	dtDecls    []string        // datatype declarations in dependency order
	dtDone     map[string]bool // struct value datatypes already declared
	heapSort   map[string]string // heap name -> element sort
	heapOrder  []string
	typeTag    map[string]int // type string -> interface tag
	tagOrder   []string
	tagType    map[string]types.Type
}

func NewTypeEnv() *TypeEnv {
	return &TypeEnv{
		structName: map[*types.Struct]string{},
		structByNm: map[string]*types.Struct{},
		dtDone:     map[string]bool{},
		heapSort:   map[string]string{},
		typeTag:    map[string]int{},
		tagType:    map[string]types.Type{},
	}
}

func sanitize(s string) string {
	var b strings.Builder
	for _, r := range s {
		switch {
		case r >= 'a' && r <= 'z', r >= 'A' && r <= 'Z', r >= '0' && r <= '9', r == '_':
			b.WriteRune(r)
		case r == '.':
			b.WriteString("_")
		case r == '*':
			b.WriteString("P")
		case r == '[':
			b.WriteString("L")
		case r == ']':
			b.WriteString("J")
		case r == '/':
			b.WriteString("_")
		default:
			b.WriteString("_")
		}
	}
	return b.String()
}

func shortQual(p *types.Package) string {
	if p == nil {
		return ""
	}
	return p.Name()
}

// TypeName gives a short, stable, sanitized name for a type.
func (te *TypeEnv) TypeName(t types.Type) string {
	return sanitize(types.TypeString(t, shortQual))
}

// StructName names a struct type (named or anonymous).
func (te *TypeEnv) StructName(t types.Type) string {
	st, ok := t.Underlying().(*types.Struct)
	if !ok {
		subsetf("StructName of non-struct %s", t)
	}
	if n, ok := te.structName[st]; ok {
		return n
	}
	var name string
	if nt, ok := t.(*types.Named); ok {
		name = te.TypeName(nt)
	} else if at, ok := t.(*types.Alias); ok {
		name = te.TypeName(types.Unalias(at))
	} else {
		// identical anonymous struct types written at different places (a parameter type repeated in several
		// signatures) are one Go type and one set of heaps
		for prev, n := range te.structName {
			if strings.HasPrefix(n, "anon") && types.Identical(prev, st) {
				te.structName[st] = n
				return n
			}
		}
		name = fmt.Sprintf("anon%d", len(te.structName))
	}
	if prev, ok := te.structByNm[name]; ok && prev != st {
		name = fmt.Sprintf("%s_%d", name, len(te.structName))
	}
	te.structName[st] = name
	te.structByNm[name] = st
	return name
}

// SortOf maps a Go type to an SMT sort name.
func (te *TypeEnv) SortOf(t types.Type) string {
	switch u := t.Underlying().(type) {
	case *types.Basic:
		switch {
		case u.Info()&types.IsBoolean != 0:
			return SBool
		case u.Info()&types.IsInteger != 0:
			return SInt
		case u.Info()&types.IsFloat != 0:
			return SReal
		case u.Info()&types.IsString != 0:
			return SStr
		case u.Kind() == types.UnsafePointer:
			return SRef
		case u.Kind() == types.UntypedNil:
			return SRef
		}
		subsetf("unsupported basic type %s", t)
	case *types.Pointer, *types.Map, *types.Chan, *types.Signature:
		return SRef
	case *types.Slice:
		return SSlice
	case *types.Interface:
		return SIface
	case *types.Struct:
		return te.declStructDT(t)
	case *types.Array:
		// arrays of scalar elements as values ([2]string, [4]int, ...): an SMT array over the indices
		if b, ok := u.Elem().Underlying().(*types.Basic); ok && b.Kind() != types.UnsafePointer && b.Kind() != types.UntypedNil {
			return fmt.Sprintf("(Array Int %s)", te.SortOf(u.Elem()))
		}
		subsetf("array value type %s not modelled", t)
	case *types.Tuple:
		subsetf("tuple as value")
	}
	subsetf("unsupported type %s", t)
	return ""
}

// Leaf describes one flattened leaf field of a struct type.
type Leaf struct {
	Path string     // e.g. "Text.Content"
	Type types.Type // leaf field type (non-struct)
	Sort string
}

// Leaves returns the flattened leaves of struct type t (inline structs are
// flattened recursively). prefix is prepended to paths.
func (te *TypeEnv) Leaves(t types.Type, prefix string) []Leaf {
	st, ok := t.Underlying().(*types.Struct)
	if !ok {
		subsetf("Leaves of non-struct %s", t)
	}
	var out []Leaf
	for i := 0; i < st.NumFields(); i++ {
		f := st.Field(i)
		p := f.Name()
		if prefix != "" {
			p = prefix + "." + f.Name()
		}
		if _, isS := f.Type().Underlying().(*types.Struct); isS {
			out = append(out, te.Leaves(f.Type(), p)...)
			continue
		}
		if _, isA := f.Type().Underlying().(*types.Array); isA {
			// arrays inside structs are not modelled; skip the field (reads of it are subset errors)
			continue
		}
		out = append(out, Leaf{Path: p, Type: f.Type(), Sort: te.SortOf(f.Type())})
	}
	return out
}

// declStructDT declares (once) the value datatype of a struct and returns its sort.
func (te *TypeEnv) declStructDT(t types.Type) string {
	name := "V_" + te.StructName(t)
	if te.dtDone[name] {
		return name
	}
	te.dtDone[name] = true
	st := t.Underlying().(*types.Struct)
	var fields []string
	for i := 0; i < st.NumFields(); i++ {
		f := st.Field(i)
		if _, isA := f.Type().Underlying().(*types.Array); isA {
			continue
		}
		fs := te.SortOf(f.Type()) // declares nested first
		fields = append(fields, fmt.Sprintf("(%s_%s %s)", name, f.Name(), fs))
	}
	if len(fields) == 0 {
		fields = append(fields, fmt.Sprintf("(%s__unit Int)", name))
	}
	te.dtDecls = append(te.dtDecls, fmt.Sprintf("(declare-datatypes ((%s 0)) (((mk_%s %s))))", name, name, strings.Join(fields, " ")))
	return name
}

// FieldHeap returns the heap name for leaf `path` of root struct type root.
func (te *TypeEnv) FieldHeap(root types.Type, path string, sortName string) string {
	h := "H_" + te.StructName(root) + "_" + sanitize(path)
	te.noteHeap(h, sortName)
	return h
}

// CellHeap returns the heap that holds non-struct cells (slice elements,
// escaping locals) of type t.
func (te *TypeEnv) CellHeap(t types.Type) string {
	h := "M_" + te.TypeName(t)
	te.noteHeap(h, te.SortOf(t))
	return h
}

// MapHeaps returns the domain and value heaps of a map type.
func (te *TypeEnv) MapHeaps(t types.Type) (dom, val string, ks, vs string) {
	mt := t.Underlying().(*types.Map)
	ks = te.SortOf(mt.Key())
	vs = te.SortOf(mt.Elem())
	n := te.TypeName(mt.Key()) + "_" + te.TypeName(mt.Elem())
	dom = "MD_" + n
	val = "MV_" + n
	te.noteHeapRaw(dom, fmt.Sprintf("(Array Ref (Array %s Bool))", ks))
	te.noteHeapRaw(val, fmt.Sprintf("(Array Ref (Array %s %s))", ks, vs))
	return
}

func (te *TypeEnv) noteHeap(h, elemSort string) {
	te.noteHeapRaw(h, fmt.Sprintf("(Array Ref %s)", elemSort))
}

func (te *TypeEnv) noteHeapRaw(h, fullSort string) {
	if _, ok := te.heapSort[h]; !ok {
		te.heapSort[h] = fullSort
		te.heapOrder = append(te.heapOrder, h)
	}
}

// GlobalHeap is the (scalar) "heap" of a package-level variable.
func (te *TypeEnv) GlobalHeap(pkg, name string, t types.Type) string {
	h := "G_" + sanitize(pkg) + "_" + sanitize(name)
	te.noteHeapRaw(h, te.SortOf(t))
	return h
}

// Tag returns the interface type tag of a concrete type.
func (te *TypeEnv) Tag(t types.Type) int {
	k := types.TypeString(t, nil)
	if v, ok := te.typeTag[k]; ok {
		return v
	}
	v := len(te.typeTag) + 1
	te.typeTag[k] = v
	te.tagOrder = append(te.tagOrder, k)
	te.tagType[k] = t
	return v
}

// Zero returns the zero value term of a type.
func (te *TypeEnv) Zero(t types.Type) string {
	return te.ZeroOfSort(te.SortOf(t), t)
}

func (te *TypeEnv) ZeroOfSort(s string, t types.Type) string {
	switch s {
	case SInt:
		return "0"
	case SBool:
		return "false"
	case SReal:
		return "0.0"
	case SStr:
		return "str_empty"
	case SRef:
		return "nil"
	case SSlice:
		return "(mkslice 0 0 0 0)"
	case SIface:
		return "iface_nil"
	}
	if strings.HasPrefix(s, "(Array Int ") {
		inner := strings.TrimSuffix(strings.TrimPrefix(s, "(Array Int "), ")")
		return fmt.Sprintf("((as const %s) %s)", s, te.ZeroOfSort(inner, nil))
	}
	if strings.HasPrefix(s, "V_") && t != nil {
		st := t.Underlying().(*types.Struct)
		var parts []string
		for i := 0; i < st.NumFields(); i++ {
			f := st.Field(i)
			if _, isA := f.Type().Underlying().(*types.Array); isA {
				continue
			}
			parts = append(parts, te.Zero(f.Type()))
		}
		if len(parts) == 0 {
			parts = []string{"0"}
		}
		return fmt.Sprintf("(mk_%s %s)", s, strings.Join(parts, " "))
	}
	subsetf("zero of sort %s", s)
	return ""
}

// HeapNames returns all heap names noted so far, sorted by first use.
func (te *TypeEnv) HeapNames() []string { return append([]string(nil), te.heapOrder...) }

// StructHeaps returns all leaf heap names of struct type t (rooted at t).
func (te *TypeEnv) StructHeaps(t types.Type) []string {
	var out []string
	for _, l := range te.Leaves(t, "") {
		out = append(out, te.FieldHeap(t, l.Path, l.Sort))
	}
	sort.Strings(out)
	return out
}

// Prelude emits the fixed sorts and axioms.
func Prelude() string {
	return `(set-option :produce-models true)
(set-logic ALL)
(declare-sort Str 0)
(declare-datatypes ((Ref 0)) (((nil) (obj (oid Int)) (elem (earr Int) (eidx Int)))))
(declare-datatypes ((Slice 0)) (((mkslice (sarr Int) (soff Int) (slen Int) (scap Int)))))
(declare-datatypes ((Iface 0)) (((mkiface (itag Int) (iref Ref) (iint Int) (istr Str) (ibool Bool) (ireal Real) (islice Slice)))))
(declare-datatypes ((Fuel 0)) (((FZ) (FS (fpred Fuel)))))
(declare-const str_empty Str)
(define-fun iface_nil () Iface (mkiface 0 nil 0 str_empty false 0.0 (mkslice 0 0 0 0)))
(define-fun alloc ((r Ref) (n Int)) Bool (ite ((_ is obj) r) (and (< 0 (oid r)) (< (oid r) n)) (ite ((_ is elem) r) (and (< 0 (earr r)) (< (earr r) n)) true)))
(define-fun slice_ok ((s Slice) (n Int)) Bool (and (<= 0 (soff s)) (<= 0 (slen s)) (<= (slen s) (scap s)) (<= 0 (sarr s)) (< (sarr s) n) (=> (= (sarr s) 0) (and (= (scap s) 0) (= (soff s) 0)))))
(define-fun iface_ok ((x Iface) (n Int)) Bool (and (>= (itag x) 0) (alloc (iref x) n) (slice_ok (islice x) n) (=> (= (itag x) 0) (= x iface_nil))))
(declare-fun selem (Slice Int) Ref)
(assert (forall ((s Slice) (i Int)) (! (= (selem s i) (elem (sarr s) (+ (soff s) i))) :pattern ((selem s i)))))
(declare-fun Str_len (Str) Int)
(assert (forall ((s Str)) (! (>= (Str_len s) 0) :pattern ((Str_len s)))))
(assert (forall ((s Str)) (! (=> (= (Str_len s) 0) (= s str_empty)) :pattern ((Str_len s)))))
(assert (= (Str_len str_empty) 0))
(declare-fun Str_cat (Str Str) Str)
(assert (forall ((a Str) (b Str)) (! (= (Str_len (Str_cat a b)) (+ (Str_len a) (Str_len b))) :pattern ((Str_cat a b)))))
(assert (forall ((a Str)) (! (= (Str_cat a str_empty) a) :pattern ((Str_cat a str_empty)))))
(assert (forall ((a Str)) (! (= (Str_cat str_empty a) a) :pattern ((Str_cat str_empty a)))))
(declare-fun Str_at (Str Int) Int)
(declare-fun Str_sub (Str Int Int) Str)
(assert (forall ((a Str) (i Int) (j Int)) (! (=> (and (<= 0 i) (<= i j) (<= j (Str_len a))) (= (Str_len (Str_sub a i j)) (- j i))) :pattern ((Str_sub a i j)))))
(assert (forall ((a Str) (b Str) (i Int) (j Int)) (! (=> (and (= i 0) (= j (Str_len a))) (= (Str_sub (Str_cat a b) i j) a)) :pattern ((Str_sub (Str_cat a b) i j)))))
(assert (forall ((a Str) (b Str) (i Int) (j Int)) (! (=> (and (= i (Str_len a)) (= j (+ (Str_len a) (Str_len b)))) (= (Str_sub (Str_cat a b) i j) b)) :pattern ((Str_sub (Str_cat a b) i j)))))
(assert (forall ((a Str) (b Str) (c Str)) (! (=> (= (Str_cat a b) (Str_cat a c)) (= b c)) :pattern ((Str_cat a b) (Str_cat a c)))))
(assert (forall ((a Str) (b Str) (i Int)) (! (=> (and (<= 0 i) (< i (Str_len a))) (= (Str_at (Str_cat a b) i) (Str_at a i))) :pattern ((Str_at (Str_cat a b) i)))))
(assert (forall ((a Str) (b Str) (i Int)) (! (=> (and (<= (Str_len a) i) (< i (+ (Str_len a) (Str_len b)))) (= (Str_at (Str_cat a b) i) (Str_at b (- i (Str_len a))))) :pattern ((Str_at (Str_cat a b) i)))))
(declare-fun Str_lt (Str Str) Bool)
(declare-fun itoa (Int) Str)
(declare-fun atoi (Str) Int)
(declare-fun atoi_ok (Str) Bool)
(assert (forall ((n Int)) (! (and (atoi_ok (itoa n)) (= (atoi (itoa n)) n) (>= (Str_len (itoa n)) 1)) :pattern ((itoa n)))))
(declare-fun Str_leadint (Str) Int)
(assert (forall ((n Int) (t Str)) (! (=> (or (= (Str_len t) 0) (< (Str_at t 0) 48) (> (Str_at t 0) 57)) (= (Str_leadint (Str_cat (itoa n) t)) n)) :pattern ((Str_cat (itoa n) t)))))
(define-fun trunc ((x Real)) Int (ite (>= x 0.0) (to_int x) (- (to_int (- x)))))
`
}

// PreludeRnd: the nearest-integer function of "%.0f"; only emitted for functions that mention it (real
// arithmetic in the header slows the solvers down on pure integer/heap goals).
func PreludeRnd() string {
	return `(declare-fun rnd (Real) Int)
(assert (forall ((x Real)) (! (and (<= (- x 0.5) (to_real (rnd x))) (<= (to_real (rnd x)) (+ x 0.5))) :pattern ((rnd x)))))
(assert (forall ((n Int)) (! (= (rnd (to_real n)) n) :pattern ((rnd (to_real n))))))
`
}

// PreludeParseFloat: strconv.ParseFloat(s, 64) as a function of the string: pfloat_ok(s) iff it succeeds,
// pfloat(s) its value; decimal integer strings parse to their integer.
func PreludeParseFloat() string {
	return `(declare-fun pfloat (Str) Real)
(declare-fun pfloat_ok (Str) Bool)
(assert (forall ((s Str)) (! (=> (atoi_ok s) (and (pfloat_ok s) (= (pfloat s) (to_real (atoi s))))) :pattern ((pfloat s)) :pattern ((pfloat_ok s)))))
`
}
