package vc

import (
	"bufio"
	"fmt"
	"go/types"
	"os"
	"path/filepath"
	"sort"
	"strconv"
	"strings"
)

// Clause is one requires/ensures/invariant clause.
type Clause struct {
	Text string
	Expr SExpr
	Line int
	File string
}

// LoopSpec holds the annotations of one loop (by ordinal in source order).
type LoopSpec struct {
	Ordinal    int
	Invariants []Clause
	Decreases  *Clause
}

// Contract is the contract of one function.
type Contract struct {
	Pkg      string // package name (document, style, markdown)
	Key      string // "(*Table).DeleteRow" or "New"
	Props    []string
	Requires []Clause
	Ensures  []Clause
	Modifies []string // heap specs ("Table.Rows", "[]TableRow", "*"); nil + !HasModifies => inferred
	HasModifies bool
	ModBuilders []Clause // "modifies sb(<expr>)": strings.Builder locations whose ghost content the function may change
	Loops    map[int]*LoopSpec
	Inline   bool // verified at each call site by inlining its body
	Trusted  bool // contract assumed, body not verified (listed as assumption)
	NoVerify bool
	Pure     bool // callee writes nothing (modifies nothing)
	File     string
	Line     int
	Lets     []LetDef // ghost definitions usable in clauses: let name = expr (evaluated at entry)
	Uses     []string
	Decreases *Clause // function-level measure (recursion)
	Emits     []EmitSpec // ghost events this function appends (assumed at call sites)
	WF       []string // heap specs for which heap well-formedness axioms are emitted
	CheckFacts bool   // "checkfacts": a run-time check turned into an obligation is a fact for the rest of the path (see oblige)
	AppendFacts bool  // "appendfacts": emit the derived prefix facts of every append in this function (see doAppend)
	Ghosts   []GhostDef // ghost integer constants (see "ghost" in loadFile)
	Partial  bool // partial correctness: self-recursion without a measure is reported instead of being an obligation
	NoPanicAssumed bool // the run-time checks of this function (nil, index, slice, ...) are assumed, not proved (reported)
	Rebinds  []Rebind // per-callee instantiation of a callee's ghost constant (default: binding by name)
	IgnoreEnsures []string // spec functions: callee postconditions mentioning one of them are not assumed in this function
}

// Rebind: "rebind <callee-key-substring> <ghost> = <expr>": at calls of the matching callee the callee's ghost
// constant is instantiated with <expr>, evaluated in the caller's state at the call (the callee's contract is
// proved for every value of its ghost, so any instance may be used). loopBound(n) in <expr> is the allocation
// counter at the entry of the caller's n-th loop.
type Rebind struct {
	Callee string
	Ghost  string
	Expr   SExpr
	Text   string
}

// GhostDef: "ghost B int" declares a ghost integer constant the clauses of the contract may mention. The
// function is verified for an arbitrary value of it; a callee's ghost of the same name denotes the caller's
// (binding by name), so a contract quantifies over the value and the caller picks the instance.
// "ghost B int = <expr>" (top-level functions) fixes the value to <expr> evaluated at entry; such a contract
// must not mention the ghost in requires/ensures, because callers would assume them for their own value.
type GhostDef struct {
	Name string
	Init SExpr
	Text string
}

// EmitSpec: "emits <seq> <expr>" — a call of the function appends <expr> to the ghost sequence <seq>.
type EmitSpec struct {
	Seq  string
	Expr SExpr
	Text string
}

type LetDef struct {
	Name string
	Expr SExpr
	Text string
}

func (c *Contract) FullKey() string { return c.Pkg + "." + c.Key }

// PureFn is a spec function.
type PureFn struct {
	Pkg       string
	Name      string
	Params    []SBinder
	Result    STypeRef
	Body      SExpr
	Text      string
	Decreases string
	File      string
	Line      int
	DcsType   types.Type // set for generated deep-copy spec functions
	// computed
	Heaps     []string
	Recursive bool
}

// ContractSet is everything read from the contract files.
// Template is a clause or spec function schema that is expanded once per struct field
// ("forall-fields F of T kind :: text" with $F the field name and $T its (element) type).
type Template struct {
	Pkg   string
	Kw    string // requires, ensures, invariant, spec
	Owner *Contract
	Loop  *LoopSpec
	Text  string
	File  string
	Line  int
}

type ContractSet struct {
	SharedPkg  map[string]string // "Type.Field" -> package of the directive
	Shared     map[string]string // "Type.Field" -> reason: fields a deep copy shares with its source (by pointer) instead of copying
	Templates  []Template
	Funcs      map[string]*Contract
	Pures      map[string]*PureFn
	Order      []string
	Files      []string
	Axioms     []AxiomDef
	GhostNames map[string]bool // every ghost constant declared by some contract
	XMLOrders  []XMLOrderSpec  // xml-order directives (static check "xml-order")
}

// XMLOrderSpec: `//@ xml-order T: a, b, c` - the child ELEMENTS that encoding/xml writes for struct type T (fields with an
// element tag, in declaration order, which is the order of the output) are exactly a, b, c in this order.
type XMLOrderSpec struct {
	Pkg, Type string
	Names     []string
	File      string
	Line      int
}

type AxiomDef struct {
	Pkg  string
	Text string
	Expr SExpr
	File string
	Line int
}

// LoadContracts reads every zz_contracts_verif*.go file under repo/pkg/*.
func LoadContracts(repo string) (*ContractSet, error) {
	cs := &ContractSet{Funcs: map[string]*Contract{}, Pures: map[string]*PureFn{}}
	files, _ := filepath.Glob(filepath.Join(repo, "pkg", "*", "zz_contracts_verif*.go"))
	sort.Strings(files)
	skip := os.Getenv("GOVC_SKIP") // comma-separated substrings of contract file names to leave out (work in progress)
	for _, f := range files {
		skipped := false
		for _, sk := range strings.Split(skip, ",") {
			if sk != "" && strings.Contains(filepath.Base(f), sk) {
				skipped = true
			}
		}
		if skipped {
			continue
		}
		if err := cs.loadFile(f); err != nil {
			return nil, err
		}
		cs.Files = append(cs.Files, f)
	}
	return cs, nil
}

func (cs *ContractSet) loadFile(path string) error {
	fh, err := os.Open(path)
	if err != nil {
		return err
	}
	defer fh.Close()
	pkg := filepath.Base(filepath.Dir(path))
	sc := bufio.NewScanner(fh)
	sc.Buffer(make([]byte, 1<<20), 1<<20)
	type rawClause struct {
		kw   string
		text string
		line int
	}
	var raws []rawClause
	ln := 0
	for sc.Scan() {
		ln++
		line := strings.TrimSpace(sc.Text())
		if strings.HasPrefix(line, "//@+") {
			if len(raws) == 0 {
				return fmt.Errorf("%s:%d: continuation without clause", path, ln)
			}
			raws[len(raws)-1].text += " " + strings.TrimSpace(line[4:])
			continue
		}
		if !strings.HasPrefix(line, "//@") {
			continue
		}
		body := strings.TrimSpace(line[3:])
		if body == "" {
			continue
		}
		// strip trailing comment " // ..."
		if i := strings.Index(body, " // "); i >= 0 && !strings.Contains(body[:i], "\"") {
			body = strings.TrimSpace(body[:i])
		}
		kw := body
		rest := ""
		if i := strings.IndexAny(body, " \t"); i >= 0 {
			kw, rest = body[:i], strings.TrimSpace(body[i+1:])
		}
		raws = append(raws, rawClause{kw, rest, ln})
	}
	var cur *Contract
	var curLoop *LoopSpec
	for _, r := range raws {
		mk := func() (Clause, error) {
			e, err := ParseSpec(r.text)
			if err != nil {
				return Clause{}, fmt.Errorf("%s:%d: %v", path, r.line, err)
			}
			return Clause{Text: r.text, Expr: e, Line: r.line, File: path}, nil
		}
		switch r.kw {
		case "func":
			cur = &Contract{Pkg: pkg, Key: r.text, Loops: map[int]*LoopSpec{}, File: path, Line: r.line}
			curLoop = nil
			if _, dup := cs.Funcs[cur.FullKey()]; dup {
				return fmt.Errorf("%s:%d: duplicate contract for %s", path, r.line, r.text)
			}
			cs.Funcs[cur.FullKey()] = cur
			cs.Order = append(cs.Order, cur.FullKey())
		case "props":
			if cur == nil {
				return fmt.Errorf("%s:%d: props outside func", path, r.line)
			}
			cur.Props = append(cur.Props, strings.Fields(strings.ReplaceAll(r.text, ",", " "))...)
		case "deepcopy-shares":
			// deepcopy-shares Type.Field : reason  — the deepcopy predicate demands pointer equality for this
			// field instead of a copy (a recorded, deliberate weakening; listed in the evidence)
			parts := strings.SplitN(r.text, ":", 2)
			if cs.Shared == nil {
				cs.Shared = map[string]string{}
			}
			reason := ""
			if len(parts) == 2 {
				reason = strings.TrimSpace(parts[1])
			}
			cs.Shared[strings.TrimSpace(parts[0])] = reason
			if cs.SharedPkg == nil {
				cs.SharedPkg = map[string]string{}
			}
			cs.SharedPkg[strings.TrimSpace(parts[0])] = pkg
		case "xml-order":
			parts := strings.SplitN(r.text, ":", 2)
			if len(parts) != 2 {
				return fmt.Errorf("%s:%d: xml-order wants `Type: name, name, ...`", path, r.line)
			}
			var names []string
			for _, n := range strings.Split(parts[1], ",") {
				if n = strings.TrimSpace(n); n != "" {
					names = append(names, n)
				}
			}
			cs.XMLOrders = append(cs.XMLOrders, XMLOrderSpec{Pkg: pkg, Type: strings.TrimSpace(parts[0]), Names: names, File: path, Line: r.line})
		case "spec-fields":
			cs.Templates = append(cs.Templates, Template{Pkg: pkg, Kw: "spec", Text: r.text, File: path, Line: r.line})
		case "requires", "ensures", "invariant", "decreases":
			if cur == nil {
				return fmt.Errorf("%s:%d: %s outside func", path, r.line, r.kw)
			}
			if strings.HasPrefix(r.text, "forall-fields ") {
				if r.kw == "invariant" && curLoop == nil {
					return fmt.Errorf("%s:%d: invariant outside loop", path, r.line)
				}
				cs.Templates = append(cs.Templates, Template{Pkg: pkg, Kw: r.kw, Owner: cur, Loop: curLoop, Text: strings.TrimPrefix(r.text, "forall-fields "), File: path, Line: r.line})
				continue
			}
			if r.kw == "decreases" && curLoop == nil {
				c, err := mk()
				if err != nil {
					return err
				}
				cc := c
				cur.Decreases = &cc
				continue
			}
			c, err := mk()
			if err != nil {
				return err
			}
			switch r.kw {
			case "requires":
				cur.Requires = append(cur.Requires, c)
			case "ensures":
				cur.Ensures = append(cur.Ensures, c)
			case "invariant":
				if curLoop == nil {
					return fmt.Errorf("%s:%d: invariant outside loop", path, r.line)
				}
				curLoop.Invariants = append(curLoop.Invariants, c)
			case "decreases":
				if curLoop == nil {
					return fmt.Errorf("%s:%d: decreases outside loop", path, r.line)
				}
				cc := c
				curLoop.Decreases = &cc
			}
		case "let":
			if cur == nil {
				return fmt.Errorf("%s:%d: let outside func", path, r.line)
			}
			i := strings.Index(r.text, "=")
			if i < 0 {
				return fmt.Errorf("%s:%d: let needs '='", path, r.line)
			}
			e, err := ParseSpec(strings.TrimSpace(r.text[i+1:]))
			if err != nil {
				return fmt.Errorf("%s:%d: %v", path, r.line, err)
			}
			cur.Lets = append(cur.Lets, LetDef{Name: strings.TrimSpace(r.text[:i]), Expr: e, Text: r.text})
		case "loop":
			if cur == nil {
				return fmt.Errorf("%s:%d: loop outside func", path, r.line)
			}
			n, err := strconv.Atoi(strings.Fields(r.text)[0])
			if err != nil {
				return fmt.Errorf("%s:%d: loop ordinal: %v", path, r.line, err)
			}
			curLoop = &LoopSpec{Ordinal: n}
			cur.Loops[n] = curLoop
		case "modifies":
			if cur == nil {
				return fmt.Errorf("%s:%d: modifies outside func", path, r.line)
			}
			cur.HasModifies = true
			for _, m := range strings.Split(r.text, ",") {
				m = strings.TrimSpace(m)
				if strings.HasPrefix(m, "sb(") && strings.HasSuffix(m, ")") {
					// sb(w.output): the ghost content of this strings.Builder may change (every other builder that
					// existed at entry keeps its content: obligation frame:builders, assumed at call sites)
					e, err := ParseSpec(strings.TrimSpace(m[3 : len(m)-1]))
					if err != nil {
						return fmt.Errorf("%s:%d: %v", path, r.line, err)
					}
					cur.ModBuilders = append(cur.ModBuilders, Clause{Text: m, Expr: e, Line: r.line, File: path})
					continue
				}
				if m != "" && m != "nothing" {
					cur.Modifies = append(cur.Modifies, m)
				}
			}
		case "emits":
			if cur == nil {
				return fmt.Errorf("%s:%d: emits outside func", path, r.line)
			}
			f := strings.SplitN(r.text, " ", 2)
			if len(f) != 2 {
				return fmt.Errorf("%s:%d: emits <sequence> <expr>", path, r.line)
			}
			e, err := ParseSpec(strings.TrimSpace(f[1]))
			if err != nil {
				return fmt.Errorf("%s:%d: %v", path, r.line, err)
			}
			cur.Emits = append(cur.Emits, EmitSpec{Seq: f[0], Expr: e, Text: strings.TrimSpace(f[1])})
		case "wf":
			if cur == nil {
				return fmt.Errorf("%s:%d: wf outside func", path, r.line)
			}
			for _, m := range strings.Split(r.text, ",") {
				if m = strings.TrimSpace(m); m != "" {
					cur.WF = append(cur.WF, m)
				}
			}
		case "ghost":
			if cur == nil {
				return fmt.Errorf("%s:%d: ghost outside func", path, r.line)
			}
			decl, init := r.text, ""
			if i := strings.Index(r.text, "="); i >= 0 {
				decl, init = strings.TrimSpace(r.text[:i]), strings.TrimSpace(r.text[i+1:])
			}
			fs := strings.Fields(decl)
			if len(fs) != 2 || fs[1] != "int" {
				return fmt.Errorf("%s:%d: ghost <name> int [= <expr>]", path, r.line)
			}
			gd := GhostDef{Name: fs[0], Text: r.text}
			if init != "" {
				e, err := ParseSpec(init)
				if err != nil {
					return fmt.Errorf("%s:%d: %v", path, r.line, err)
				}
				gd.Init = e
			}
			cur.Ghosts = append(cur.Ghosts, gd)
			if cs.GhostNames == nil {
				cs.GhostNames = map[string]bool{}
			}
			cs.GhostNames[fs[0]] = true
		case "checkfacts":
			// checkfacts: after a run-time check (nil, index, slice bounds, ...) has been emitted as an obligation it is a fact
			// for the rest of the path - the continuation only runs if the check passed (a failing check is reported by its
			// own obligation). Program semantics, not an assumption; opt-in because it adds one assertion per check.
			if cur == nil {
				return fmt.Errorf("%s:%d: checkfacts outside func", path, r.line)
			}
			cur.CheckFacts = true
		case "assume-no-panic":
			// the function's own run-time checks are assumed to pass: the contract speaks about the executions
			// that do not panic (frame and postconditions); reported as an assumption
			if cur == nil {
				return fmt.Errorf("%s:%d: assume-no-panic outside func", path, r.line)
			}
			cur.NoPanicAssumed = true
		case "ignore-ensures":
			// ignore-ensures f, g: postconditions of callees that mention the spec function f or g are not assumed
			// while this function is verified (sound: fewer assumptions); keeps large structural facts
			// (deepcopy) out of verification conditions that only need the frame
			if cur == nil {
				return fmt.Errorf("%s:%d: ignore-ensures outside func", path, r.line)
			}
			for _, m := range strings.Split(r.text, ",") {
				if m = strings.TrimSpace(m); m != "" {
					cur.IgnoreEnsures = append(cur.IgnoreEnsures, m)
				}
			}
		case "rebind":
			if cur == nil {
				return fmt.Errorf("%s:%d: rebind outside func", path, r.line)
			}
			i := strings.Index(r.text, "=")
			fs := strings.Fields(r.text[:max0i(i)])
			if i < 0 || len(fs) != 2 {
				return fmt.Errorf("%s:%d: rebind <callee> <ghost> = <expr>", path, r.line)
			}
			e, err := ParseSpec(strings.TrimSpace(r.text[i+1:]))
			if err != nil {
				return fmt.Errorf("%s:%d: %v", path, r.line, err)
			}
			cur.Rebinds = append(cur.Rebinds, Rebind{Callee: fs[0], Ghost: fs[1], Expr: e, Text: r.text})
		case "partial":
			if cur == nil {
				return fmt.Errorf("%s:%d: partial outside func", path, r.line)
			}
			cur.Partial = true
		case "appendfacts":
			if cur == nil {
				return fmt.Errorf("%s:%d: appendfacts outside func", path, r.line)
			}
			cur.AppendFacts = true
		case "inline":
			cur.Inline = true
		case "trusted":
			cur.Trusted = true
		case "pure":
			cur.Pure = true
			cur.HasModifies = true
		case "noverify":
			cur.NoVerify = true
		case "spec":
			// spec name(a T, b U) R = expr
			pf, err := parsePure(pkg, r.text)
			if err != nil {
				return fmt.Errorf("%s:%d: %v", path, r.line, err)
			}
			pf.File, pf.Line = path, r.line
			if prev, dup := cs.Pures[pkg+"."+pf.Name]; dup {
				return fmt.Errorf("%s:%d: duplicate spec function %s (first defined at %s:%d)", path, r.line, pf.Name, prev.File, prev.Line)
			}
			cs.Pures[pkg+"."+pf.Name] = pf
			cur = nil
		case "axiom":
			e, err := ParseSpec(r.text)
			if err != nil {
				return fmt.Errorf("%s:%d: %v", path, r.line, err)
			}
			cs.Axioms = append(cs.Axioms, AxiomDef{Pkg: pkg, Text: r.text, Expr: e, File: path, Line: r.line})
		default:
			return fmt.Errorf("%s:%d: unknown contract keyword %q", path, r.line, r.kw)
		}
	}
	return nil
}

func parsePure(pkg, text string) (*PureFn, error) {
	i := strings.Index(text, "(")
	if i < 0 {
		return nil, fmt.Errorf("spec: missing '('")
	}
	name := strings.TrimSpace(text[:i])
	// find matching ')'
	depth := 0
	j := i
	for ; j < len(text); j++ {
		if text[j] == '(' {
			depth++
		} else if text[j] == ')' {
			depth--
			if depth == 0 {
				break
			}
		}
	}
	params := text[i+1 : j]
	rest := strings.TrimSpace(text[j+1:])
	k := strings.Index(rest, "=")
	if k < 0 {
		return nil, fmt.Errorf("spec %s: missing '='", name)
	}
	res := strings.TrimSpace(rest[:k])
	bodyText := strings.TrimSpace(rest[k+1:])
	pf := &PureFn{Pkg: pkg, Name: name, Result: STypeRef{res}, Text: text}
	for _, p := range strings.Split(params, ",") {
		p = strings.TrimSpace(p)
		if p == "" {
			continue
		}
		f := strings.Fields(p)
		if len(f) != 2 {
			return nil, fmt.Errorf("spec %s: bad parameter %q", name, p)
		}
		pf.Params = append(pf.Params, SBinder{f[0], STypeRef{f[1]}})
	}
	e, err := ParseSpec(bodyText)
	if err != nil {
		return nil, err
	}
	pf.Body = e
	return pf, nil
}

func max0i(i int) int {
	if i < 0 {
		return 0
	}
	return i
}
