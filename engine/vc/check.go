package vc

import (
	"regexp"
	"go/types"
	"encoding/json"
	"fmt"
	"os"
	"path/filepath"
	"sort"
	"strings"
	"time"
)

// KnownFindings is the committed list of genuine defects that are recorded rather than repaired.
type KnownFindings struct {
	Findings []Finding `json:"findings"`
	Fixed    []string  `json:"fixed"`
}

type Finding struct {
	Property   string `json:"property"`
	Obligation string `json:"obligation"` // exact obligation name, or prefix ending in '*'
	What       string `json:"what"`
	Input      string `json:"failing_input"`
}

func (k *KnownFindings) match(prop, obl string) *Finding {
	for i := range k.Findings {
		f := &k.Findings[i]
		if f.Property != prop {
			continue
		}
		if f.Obligation == obl {
			return f
		}
		if strings.HasSuffix(f.Obligation, "*") && strings.HasPrefix(obl, strings.TrimSuffix(f.Obligation, "*")) {
			return f
		}
	}
	return nil
}

func loadKnown(path string) *KnownFindings {
	k := &KnownFindings{}
	bs, err := os.ReadFile(path)
	if err != nil {
		return k
	}
	json.Unmarshal(bs, k)
	return k
}

// oblClass strips the per-occurrence ordinal and the return ordinal from an obligation name, so that
// the committed baseline survives unrelated edits (an added statement, an added return).
func oblClass(name string) string {
	if i := strings.LastIndex(name, "#"); i >= 0 {
		name = name[:i]
	}
	if i := strings.Index(name, "@ret"); i >= 0 {
		j := i + 4
		for j < len(name) && name[j] >= '0' && name[j] <= '9' {
			j++
		}
		name = name[:i] + name[j:]
	}
	return name
}

// Baseline: per property, the obligation classes discharged on the pinned tree.
type Baseline map[string][]string

func loadBaseline(path string) Baseline {
	b := Baseline{}
	if bs, err := os.ReadFile(path); err == nil {
		json.Unmarshal(bs, &b)
	}
	return b
}

func (b Baseline) has(prop, class string) bool {
	for _, c := range b[prop] {
		if c == class {
			return true
		}
	}
	return false
}

// PropSpec is the per-property configuration (contracts/properties.json).
type PropSpec struct {
	ID             string   `json:"id"`
	MinObligations int      `json:"min_obligations"`
	MinFunctions   int      `json:"min_functions"`
	Static         []string `json:"static"` // names of static (non-SMT) checks to run
	Bounded        []string `json:"bounded"`
	Notes          string   `json:"notes"`
}

type CheckOpts struct {
	NoEvidence    bool // selftest runs: do not touch evidence/ and replay/
	WriteBaseline bool
	Repo     string
	Verif    string
	Prop     string
	Tier     string
	Seed     int
	Par      int
	Verbose  bool
}

type evidence struct {
	PropertyID  string                 `json:"property_id"`
	Tier        string                 `json:"tier"`
	Seed        int                    `json:"seed"`
	Level       string                 `json:"level"`
	Coverage    map[string]interface{} `json:"coverage"`
	Assumptions []string               `json:"assumptions"`
	WallS       float64                `json:"wall_s"`
	Violations  int                    `json:"violations"`
}

// RunCheck runs the check of one property; returns the process exit code.
func RunCheck(o CheckOpts) int {
	t0 := time.Now()
	timeout := 15
	if o.Tier == "thorough" {
		timeout = 60
	}
	g, err := Load(o.Repo)
	if err != nil {
		fmt.Printf("ERROR load: %v\n", err)
		return 2
	}
	if err := g.PreparePures(); err != nil {
		fmt.Printf("ERROR %v\n", err)
		return 2
	}
	for k, why := range g.BrokenPures {
		fmt.Printf("WARNING spec function %s cannot be evaluated on this tree (%s): it is left undefined, obligations that need it will fail\n", k, why)
	}
	g.ComputeWriteSets()
	known := loadKnown(filepath.Join(o.Verif, "KNOWN_FINDINGS.json"))
	basePath := filepath.Join(o.Verif, "contracts", "baseline.json")
	baseline := loadBaseline(basePath)
	var dischargedClasses = map[string]bool{}
	var failedClasses = map[string]bool{}
	specs := map[string]*PropSpec{}
	if bs, err := os.ReadFile(filepath.Join(o.Verif, "contracts", "properties.json")); err == nil {
		var list []*PropSpec
		if err := json.Unmarshal(bs, &list); err != nil {
			fmt.Printf("ERROR properties.json: %v\n", err)
			return 2
		}
		for _, p := range list {
			specs[p.ID] = p
		}
	}
	spec := specs[o.Prop]
	if spec == nil {
		spec = &PropSpec{ID: o.Prop}
	}
	var keys []string
	for _, k := range g.CS.Order {
		c := g.CS.Funcs[k]
		if c.Inline || c.NoVerify || c.Trusted {
			continue
		}
		for _, p := range c.Props {
			if p == o.Prop {
				keys = append(keys, k)
			}
		}
	}
	var results []*FnResult
	undecided := 0
	var assumptions = map[string]bool{}
	var warnings []string
	instrs := 0
	for _, k := range keys {
		r := g.GenFunc(k)
		results = append(results, r)
		instrs += r.InstrCount
		if r.Err != nil {
			fmt.Printf("UNDECIDED property=%s function=%s reason=%v\n", o.Prop, k, r.Err)
			undecided++
		}
		for _, a := range r.Assumed {
			assumptions[a] = true
		}
		warnings = append(warnings, r.Warnings...)
	}
	header := g.Header()
	outDir := filepath.Join(o.Verif, "out", "smt", o.Prop)
	replayDir := filepath.Join(o.Verif, "replay", o.Prop)
	if o.NoEvidence {
		tmp, _ := os.MkdirTemp("", "govc-out")
		defer os.RemoveAll(tmp)
		outDir = filepath.Join(tmp, "smt")
		replayDir = filepath.Join(tmp, "replay")
	}
	os.RemoveAll(outDir)
	NoRetry = func(n string) bool { return known.match(o.Prop, oblClass(n)) != nil }
	// solver seconds each obligation class needed when the baseline was written: an obligation that is normally decided
	// in a fraction of a second and now times out gets a short second chance, one that is known to be slow a long one
	timingPath := filepath.Join(o.Verif, "contracts", "timing.json")
	timing := map[string]map[string]float64{}
	if bs, err := os.ReadFile(timingPath); err == nil {
		json.Unmarshal(bs, &timing)
	}
	RetryHint = func(n string) (float64, bool) {
		tp, ok := timing[o.Prop]
		if !ok || !baseline.has(o.Prop, oblClass(n)) {
			return 0, false
		}
		return tp[oblClass(n)], true // 0: decided in under half a second when the baseline was written
	}
	srs := SolveAll(g, header, results, outDir, o.Par, timeout, o.Tier == "thorough")
	for _, r := range results {
		// assumptions registered while the per-function headers were assembled (instance axioms about literals)
		for _, a := range r.Assumed {
			assumptions[a] = true
		}
	}
	// static checks
	staticRes := g.RunStatic(o, spec)
	// recorded weakenings of the deepcopy predicate are findings, not silent exceptions
	usesDeepcopy := map[string]bool{} // packages with a deepcopy postcondition among this property's functions
	copied := map[string]bool{}       // named struct types (pkg.Name) reachable from the values those functions copy
	for _, k := range keys {
		for _, en := range g.CS.Funcs[k].Ensures {
			if strings.Contains(en.Text, "deepcopy(") {
				usesDeepcopy[g.CS.Funcs[k].Pkg] = true
				if fn := g.FuncByKey(k); fn != nil {
					// the values named in deepcopy(a, b): results and parameters by name; anything else
					// (an expression) falls back to every parameter and result of the function
					res := fn.Signature.Results()
					all := false
					for _, m := range deepcopyArgRe.FindAllStringSubmatch(en.Text, -1) {
						for _, a := range m[1:] {
							a = strings.TrimSpace(a)
							found := false
							if strings.HasPrefix(a, "result") {
								for i := 0; i < res.Len(); i++ {
									reachableStructs(res.At(i).Type(), copied)
								}
								found = true
							}
							for _, p := range fn.Params {
								if p.Name() == a {
									reachableStructs(p.Type(), copied)
									found = true
								}
							}
							if !found {
								all = true
							}
						}
					}
					if all {
						for _, p := range fn.Params {
							reachableStructs(p.Type(), copied)
						}
						for i := 0; i < res.Len(); i++ {
							reachableStructs(res.At(i).Type(), copied)
						}
					}
				}
			}
		}
	}
	if len(usesDeepcopy) > 0 {
		var sk []string
		for k := range g.CS.Shared {
			// a shared field T.f weakens only the copies of values that contain a T
			tn := k
			if i := strings.Index(k, "."); i >= 0 {
				tn = k[:i]
			}
			if usesDeepcopy[g.CS.SharedPkg[k]] && copied[g.CS.SharedPkg[k]+"."+tn] {
				sk = append(sk, k)
			}
		}
		sort.Strings(sk)
		for _, k := range sk {
			staticRes = append(staticRes, StaticResult{Name: "deepcopy-shares:" + k, OK: false,
				Desc:   "deep copies share " + k + " with their source instead of copying it",
				Detail: g.CS.Shared[k]})
		}
	}
	nObl, nDis, nKnown, nViol := 0, 0, 0, 0
	bySolver := map[string]int{}
	var maxSecs float64
	var slowest string
	var totalSolver float64
	var samples []map[string]string
	var knownLines, violLines []string
	for _, s := range srs {
		nObl++
		totalSolver += s.Seconds
		if s.Status == "unsat" {
			nDis++
			dischargedClasses[oblClass(s.Obl.Name)] = true
			bySolver[s.Solver]++
			if s.Seconds > maxSecs {
				maxSecs, slowest = s.Seconds, s.Obl.Name
			}
			if len(samples) < 6 && (strings.Contains(s.Obl.Kind, "post") || len(samples) < 2) {
				samples = append(samples, map[string]string{"obligation": s.Obl.Name, "clause": s.Obl.Desc, "at": s.Obl.Pos, "solver": s.Solver, "smt_goal": trunc(s.Obl.Goal, 400)})
			}
			continue
		}
		failedClasses[oblClass(s.Obl.Name)] = true
		if f := known.match(o.Prop, oblClass(s.Obl.Name)); f != nil {
			nKnown++
			knownLines = append(knownLines, fmt.Sprintf("KNOWN-FINDING: property=%s %s %s", o.Prop, s.Obl.Name, f.What))
			continue
		}
		if !o.WriteBaseline && !baseline.has(o.Prop, oblClass(s.Obl.Name)) {
			// never discharged on the pinned tree: a failed proof of something new is undecided, not a violation
			fmt.Printf("UNDECIDED property=%s obligation=%s status=%s at=%s reason=not-in-baseline (%s)\n", o.Prop, s.Obl.Name, s.Status, s.Obl.Pos, s.Obl.Desc)
			undecided++
			continue
		}
		nViol++
		os.MkdirAll(replayDir, 0o755)
		rp := filepath.Join(replayDir, sanitizeFile(s.Obl.Name)+".txt")
		confirmed := false
		var b strings.Builder
		fmt.Fprintf(&b, "property: %s\nfailed obligation: %s\nkind: %s\nat: %s\nclause: %s\nsolver status: %s\nsolvers tried: %s\nsmt file: %s\n\nsolver output:\n%s\n", o.Prop, s.Obl.Name, s.Obl.Kind, s.Obl.Pos, s.Obl.Desc, s.Status, strings.Join(s.Tried, " "), s.File, trunc(s.Output, 4000))
		cx := g.SearchCounterexample(header, s, results, o)
		if cx != nil {
			fmt.Fprintf(&b, "\ncounterexample search: %s\n%s\n", cx.Status, cx.Detail)
			confirmed = cx.Confirmed
		}
		os.WriteFile(rp, []byte(b.String()), 0o644)
		line := fmt.Sprintf("VIOLATION property=%s replay=%s obligation=%s", o.Prop, rp, s.Obl.Name)
		if !confirmed {
			line = fmt.Sprintf("VIOLATION property=%s replay=%s obligation=%s no-failing-input-found", o.Prop, rp, s.Obl.Name)
		}
		violLines = append(violLines, line)
	}
	for _, sr := range staticRes {
		nObl++
		if sr.OK {
			nDis++
			dischargedClasses[sr.Name] = true
			bySolver["static"]++
			if len(samples) < 8 {
				samples = append(samples, map[string]string{"obligation": sr.Name, "clause": sr.Desc, "solver": "static analysis"})
			}
			continue
		}
		failedClasses[sr.Name] = true
		if f := known.match(o.Prop, sr.Name); f != nil {
			nKnown++
			knownLines = append(knownLines, fmt.Sprintf("KNOWN-FINDING: property=%s %s %s", o.Prop, sr.Name, f.What))
			continue
		}
		if !o.WriteBaseline && !baseline.has(o.Prop, sr.Name) {
			fmt.Printf("UNDECIDED property=%s obligation=%s reason=not-in-baseline (%s)\n", o.Prop, sr.Name, sr.Desc)
			undecided++
			continue
		}
		nViol++
		os.MkdirAll(replayDir, 0o755)
		rp := filepath.Join(replayDir, sanitizeFile(sr.Name)+".txt")
		os.WriteFile(rp, []byte(fmt.Sprintf("property: %s\nfailed obligation: %s\n%s\n\n%s\n", o.Prop, sr.Name, sr.Desc, sr.Detail)), 0o644)
		suffix := " no-failing-input-found"
		if sr.Replayed {
			suffix = ""
		}
		violLines = append(violLines, fmt.Sprintf("VIOLATION property=%s replay=%s obligation=%s%s", o.Prop, rp, sr.Name, suffix))
	}
	if o.WriteBaseline {
		var cls []string
		for c := range dischargedClasses {
			if !failedClasses[c] {
				cls = append(cls, c)
			}
		}
		sort.Strings(cls)
		baseline[o.Prop] = cls
		os.MkdirAll(filepath.Dir(basePath), 0o755)
		bs, _ := json.MarshalIndent(baseline, "", " ")
		os.WriteFile(basePath, bs, 0o644)
		fmt.Printf("baseline: property=%s classes=%d written to %s\n", o.Prop, len(cls), basePath)
		tm := map[string]float64{}
		for _, s := range srs {
			if s.Status == "unsat" && s.Seconds >= 0.5 {
				if c := oblClass(s.Obl.Name); s.Seconds > tm[c] {
					tm[c] = float64(int(s.Seconds*10)) / 10
				}
			}
		}
		timing[o.Prop] = tm // only classes that needed half a second or more; everything else counts as fast
		tb, _ := json.MarshalIndent(timing, "", " ")
		os.WriteFile(timingPath, tb, 0o644)
	}
	// findings whose clause is deliberately not stated or not generated (there is no obligation that could fail) are
	// listed on every run as well, so that the output names every recorded finding of the property
	for i := range known.Findings {
		f := &known.Findings[i]
		if f.Property == o.Prop && strings.Contains(f.Obligation, "(clause not") {
			knownLines = append(knownLines, fmt.Sprintf("KNOWN-FINDING: property=%s %s %s", o.Prop, f.Obligation, f.What))
		}
	}
	sort.Strings(knownLines)
	for _, l := range knownLines {
		fmt.Println(l)
	}
	for _, l := range violLines {
		fmt.Println(l)
	}
	// vacuity guards
	vac := 0
	if nObl < spec.MinObligations || len(keys) < spec.MinFunctions {
		fmt.Printf("VACUOUS property=%s obligations=%d (min %d) functions=%d (min %d)\n", o.Prop, nObl, spec.MinObligations, len(keys), spec.MinFunctions)
		vac++
	}
	covers := g.CoverChecks(header, results, outDir, o.Par)
	coverByFn := map[string]bool{}
	for _, cv := range covers {
		fn := cv.Name[:strings.Index(cv.Name, ":cover")]
		if cv.OK {
			coverByFn[fn] = true
		} else if _, ok := coverByFn[fn]; !ok {
			coverByFn[fn] = false
		}
	}
	for fn, ok := range coverByFn {
		if !ok {
			fmt.Printf("VACUOUS property=%s function=%s: no return is reachable under the contract's assumptions\n", o.Prop, fn)
			vac++
		}
	}
	var assum []string
	for a := range assumptions {
		assum = append(assum, a)
	}
	sort.Strings(assum)
	assum = append(assum,
		"tool chain: go/packages, go/types, go/ssa (x/tools v0.29.0) give a faithful SSA of the source; z3/cvc5 are sound for unsat; the VC generator govc itself",
		"integers are mathematical (no wrap-around); float64 is modelled as exact reals (no rounding, no NaN/Inf)",
		"strings are an uninterpreted sort with length/concat axioms (length of a concatenation, substring and byte-at over a concatenation, left cancellation a++b = a++c => b = c, the leading decimal of itoa(n)++t is n when t does not start with a digit); distinct literals are distinct; per VC: length and first byte of each literal, litA++litB = litAB (and, for path prefixes ending in a slash, its associativity instance litA++(litB++x) = litAB++x) and literal prefixes as ground facts",
		"no allocation failure or stack exhaustion; single-threaded execution within one call",
		"fresh memory is zero and unreachable from pre-existing objects (allocation counter model)")
	var fnNames []string
	for _, k := range keys {
		fnNames = append(fnNames, k)
	}
	var boundedNotes []string
	for _, sr := range staticRes {
		if sr.Bounded != "" {
			boundedNotes = append(boundedNotes, sr.Name+": "+sr.Bounded)
		}
	}
	ev := evidence{PropertyID: o.Prop, Tier: o.Tier, Seed: o.Seed, Level: "proof", WallS: time.Since(t0).Seconds(), Violations: nViol,
		Assumptions: assum,
		Coverage: map[string]interface{}{
			"obligations":               nObl - nKnown,
			"discharged":                nDis,
			"known_findings":            nKnown,
			"obligations_including_known_findings": nObl,
			"undecided_functions":       undecided,
			"checker_cmd":               fmt.Sprintf("bin/govc check -p %s -tier %s (z3 4.8.12, z3-new 5.1.0, cvc5 1.0 raced per obligation, timeout %ds)", o.Prop, o.Tier, timeout),
			"trusted_base":              assum,
			"functions_under_contract":  fnNames,
			"ssa_instructions_verified": instrs,
			"discharged_by":             bySolver,
			"solver_seconds_total":      totalSolver,
			"slowest_obligation":        map[string]interface{}{"name": slowest, "seconds": maxSecs},
			"samples":                   samples,
			"cover_checks":              len(covers),
			"warnings":                  warnings,
			"bounded_standins":          boundedNotes,
			"contract_files":            g.CS.Files,
		}}
	if !o.NoEvidence {
		os.MkdirAll(filepath.Join(o.Verif, "evidence"), 0o755)
		bs, _ := json.MarshalIndent(ev, "", " ")
		os.WriteFile(filepath.Join(o.Verif, "evidence", o.Prop+".json"), bs, 0o644)
	}
	fmt.Printf("property=%s tier=%s functions=%d obligations=%d discharged=%d known=%d violations=%d undecided=%d wall=%.1fs\n", o.Prop, o.Tier, len(keys), nObl, nDis, nKnown, nViol, undecided, time.Since(t0).Seconds())
	if nViol > 0 {
		return 1
	}
	if undecided > 0 || vac > 0 {
		return 3
	}
	return 0
}

func trunc(s string, n int) string {
	if len(s) > n {
		return s[:n] + "..."
	}
	return s
}

// StaticResult is the outcome of a non-SMT (structural) obligation.
type StaticResult struct {
	Name     string
	Desc     string
	OK       bool
	Detail   string
	Bounded  string
	Replayed bool
}

// CoverResult is a vacuity check.
type CoverResult struct {
	Name   string
	OK     bool
	Detail string
}

// CoverChecks: for each function, the conjunction of its assumptions up to each return must not be unsat.
func (g *Gen) CoverChecks(header string, results []*FnResult, outDir string, par int) []CoverResult {
	type job struct {
		name string
		text string
	}
	var jobs []job
	for _, r := range results {
		// one cover per post@ret group: use the obligations named post1@retN or the last obligation of the function
		seen := map[string]bool{}
		for _, o := range r.Obls {
			if !strings.Contains(o.Kind, "@ret") {
				continue
			}
			ret := o.Kind[strings.Index(o.Kind, "@ret"):]
			if seen[ret] {
				continue
			}
			seen[ret] = true
			var b strings.Builder
			if r.header == "" {
				r.header = g.HeaderFor(r)
			}
			b.WriteString(r.header)
			for _, l := range r.Lines[:o.PrefixLen] {
				b.WriteString(l + "\n")
			}
			fmt.Fprintf(&b, "(assert %s)\n(check-sat)\n", o.Reach)
			jobs = append(jobs, job{r.Key + ":cover" + ret, b.String()})
		}
	}
	out := make([]CoverResult, len(jobs))
	sem := make(chan struct{}, par)
	done := make(chan int, len(jobs))
	for i, j := range jobs {
		go func(i int, j job) {
			sem <- struct{}{}
			defer func() { <-sem; done <- i }()
			file := filepath.Join(outDir, sanitizeFile(j.name)+".smt2")
			os.WriteFile(file, []byte(j.text), 0o644)
			// two instantiation strategies, 1 s each: a contradiction among quantified assumptions that E-matching
			// finds in a fraction of a second can take the default (MBQI) configuration far longer, and vice versa
			st, _, _ := runSolver(z3NoMBQI, file, 1)
			if st != "unsat" {
				st, _, _ = runSolver(solvers[0], file, 1)
			}
			out[i] = CoverResult{Name: j.name, OK: st != "unsat", Detail: "path condition and assumptions: " + st}
		}(i, j)
	}
	for range jobs {
		<-done
	}
	return out
}

var deepcopyArgRe = regexp.MustCompile(`deepcopy\(([^,()]+),([^,()]+)\)`)

// reachableStructs adds the named struct types reachable from t (through pointers, slices, arrays, maps and
// struct fields) to out, keyed "pkgname.TypeName".
func reachableStructs(t types.Type, out map[string]bool) {
	switch u := t.(type) {
	case *types.Named:
		if _, ok := u.Underlying().(*types.Struct); ok && u.Obj().Pkg() != nil {
			k := u.Obj().Pkg().Name() + "." + u.Obj().Name()
			if out[k] {
				return
			}
			out[k] = true
		}
		reachableStructs(u.Underlying(), out)
	case *types.Pointer:
		reachableStructs(u.Elem(), out)
	case *types.Slice:
		reachableStructs(u.Elem(), out)
	case *types.Array:
		reachableStructs(u.Elem(), out)
	case *types.Map:
		reachableStructs(u.Key(), out)
		reachableStructs(u.Elem(), out)
	case *types.Struct:
		for i := 0; i < u.NumFields(); i++ {
			reachableStructs(u.Field(i).Type(), out)
		}
	}
}
