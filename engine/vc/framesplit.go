package vc

import "fmt"

// A frame clause (unchangedHeap(), unchangedExcept(...), a modifies clause) is a conjunction with one quantified
// conjunct per heap the function mentions. As a single goal it is the slowest obligation of every large function
// (each conjunct needs its own chain of instantiations through the heap versions). It is split into several
// obligations of at most frameChunk heaps each (3: a chunk of appended-to struct slices stays near 1 s); the conjunction of the pieces is the original clause.
const frameChunk = 3

// topConjuncts returns the conjuncts of "(and c1 c2 ...)" (balanced s-expressions), or nil if t is not of that shape.
func topConjuncts(t string) []string {
	const pre = "(and "
	if len(t) < len(pre)+1 || t[:len(pre)] != pre || t[len(t)-1] != ')' {
		return nil
	}
	body := t[len(pre) : len(t)-1]
	var out []string
	depth, start := 0, -1
	for i := 0; i < len(body); i++ {
		ch := body[i]
		switch {
		case ch == '(':
			if depth == 0 && start < 0 {
				start = i
			}
			depth++
		case ch == ')':
			depth--
			if depth < 0 {
				return nil
			}
			if depth == 0 && start >= 0 {
				out = append(out, body[start:i+1])
				start = -1
			}
		case ch == ' ' || ch == '\n' || ch == '\t':
			if depth == 0 && start >= 0 {
				out = append(out, body[start:i])
				start = -1
			}
		default:
			if depth == 0 && start < 0 {
				start = i
			}
		}
	}
	if depth != 0 {
		return nil
	}
	if start >= 0 {
		out = append(out, body[start:])
	}
	return out
}

// chunkFrame groups the conjuncts of a frame goal; a goal that is not a large conjunction is returned as it is.
func chunkFrame(goal string) []string {
	cs := topConjuncts(goal)
	if len(cs) <= frameChunk {
		return []string{goal}
	}
	var out []string
	for i := 0; i < len(cs); i += frameChunk {
		j := i + frameChunk
		if j > len(cs) {
			j = len(cs)
		}
		if j-i == 1 {
			out = append(out, cs[i])
			continue
		}
		s := "(and"
		for _, c := range cs[i:j] {
			s += " " + c
		}
		out = append(out, s+")")
	}
	return out
}

func isFrameCall(e SExpr) bool {
	c, ok := e.(SCall)
	return ok && (c.Fn == "unchangedHeap" || c.Fn == "unchangedExcept")
}

// frameGoals: the goals of a postcondition that is a frame clause, bare or guarded (G ==> frame); nil otherwise.
func frameGoals(env *SpecEnv, e SExpr) []string {
	if isFrameCall(e) {
		return chunkFrame(env.Eval(e).Term)
	}
	if b, ok := e.(SBinary); ok && b.Op == "==>" && isFrameCall(b.Y) {
		guard := env.Eval(b.X).Term
		var out []string
		for _, p := range chunkFrame(env.Eval(b.Y).Term) {
			out = append(out, fmt.Sprintf("(=> %s %s)", guard, p))
		}
		return out
	}
	return nil
}
