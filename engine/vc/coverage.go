package vc

import (
	"fmt"
	"sort"
	"strings"

	"golang.org/x/tools/go/ssa"
)

// Coverage lists, per source file of the repository packages, the functions under contract and those that are
// not, and for the latter whether a function under contract calls them (then the caller's proof relies on their
// inferred write set only, not on a functional contract). A reporting aid (govc coverage), not an obligation.
func (g *Gen) Coverage() string {
	type row struct {
		key      string
		contract bool
		props    []string
		calledBy int
	}
	byFile := map[string][]*row{}
	rows := map[string]*row{}
	for k, fn := range g.fnByKey {
		if !inRepo(fn) || fn.Synthetic != "" && fn.Parent() == nil {
			continue
		}
		f := fnFile(g, fn)
		if f == "" || strings.HasSuffix(f, "_test.go") {
			continue
		}
		r := &row{key: k}
		if con := g.CS.Funcs[k]; con != nil {
			r.contract = true
			r.props = con.Props
		}
		rows[k] = r
		byFile[f] = append(byFile[f], r)
	}
	// callers under contract
	for k, fn := range g.fnByKey {
		if g.CS.Funcs[k] == nil {
			continue
		}
		seen := map[string]bool{}
		for _, b := range fn.Blocks {
			for _, in := range b.Instrs {
				if ci, ok := in.(ssa.CallInstruction); ok {
					if sc := ci.Common().StaticCallee(); sc != nil && inRepo(sc) {
						ck := FuncKey(sc)
						if r := rows[ck]; r != nil && !seen[ck] {
							seen[ck] = true
							r.calledBy++
						}
					}
				}
			}
		}
	}
	var files []string
	for f := range byFile {
		files = append(files, f)
	}
	sort.Strings(files)
	var b strings.Builder
	tot, totC := 0, 0
	for _, f := range files {
		rs := byFile[f]
		sort.Slice(rs, func(i, j int) bool { return rs[i].key < rs[j].key })
		n := 0
		for _, r := range rs {
			if r.contract {
				n++
			}
		}
		tot += len(rs)
		totC += n
		fmt.Fprintf(&b, "\n## %s — %d of %d functions under contract\n", f, n, len(rs))
		var without, abstracted []string
		for _, r := range rs {
			if r.contract {
				continue
			}
			if r.calledBy > 0 {
				abstracted = append(abstracted, fmt.Sprintf("%s (called by %d contracted)", r.key, r.calledBy))
			} else {
				without = append(without, r.key)
			}
		}
		if len(abstracted) > 0 {
			fmt.Fprintf(&b, "called from verified code, abstracted by inferred write set or inlined: %s\n", strings.Join(abstracted, ", "))
		}
		if len(without) > 0 {
			fmt.Fprintf(&b, "not under contract: %s\n", strings.Join(without, ", "))
		}
	}
	return fmt.Sprintf("# Functions under contract: %d of %d (non-test functions and function literals of pkg/document, pkg/style, pkg/markdown)\n", totC, tot) + b.String()
}
