package main

import (
	"flag"
	"fmt"
	"os"
	"sort"
	"strings"
	"time"

	"govc/vc"
)

func main() {
	if len(os.Args) < 2 {
		fmt.Println("usage: govc verify|check ...")
		os.Exit(2)
	}
	switch os.Args[1] {
	case "verify":
		cmdVerify(os.Args[2:])
	case "check":
		os.Exit(cmdCheck(os.Args[2:]))
	case "replay":
		// A replay file names the failed obligation and carries the solver output (no solver model is
		// turned into a Go test: see DESIGN.md §5); replaying means showing it and re-running the obligation's check.
		if len(os.Args) < 3 {
			fmt.Println("usage: govc replay <path>")
			os.Exit(2)
		}
		bs, err := os.ReadFile(os.Args[2])
		if err != nil {
			fmt.Println(err)
			os.Exit(2)
		}
		os.Stdout.Write(bs)
	case "footprint":
		// govc footprint <repo> <function-key-substring>...: inferred write and allocation sets (debugging aid)
		g, err := vc.Load(os.Args[2])
		if err != nil {
			fmt.Println(err)
			os.Exit(2)
		}
		g.ComputeWriteSets()
		g.DumpFootprints(os.Args[3:])
	case "coverage":
		repo := "/repo"
		if len(os.Args) > 2 {
			repo = os.Args[2]
		}
		g, err := vc.Load(repo)
		if err != nil {
			fmt.Println(err)
			os.Exit(2)
		}
		fmt.Print(g.Coverage())
	case "globals":
		g, err := vc.Load("/repo")
		if err != nil {
			fmt.Println(err)
			os.Exit(2)
		}
		g.ComputeWriteSets()
		g.DumpGlobals()
	default:
		fmt.Println("unknown command")
		os.Exit(2)
	}
}

func cmdVerify(args []string) {
	fs := flag.NewFlagSet("verify", flag.ExitOnError)
	repo := fs.String("repo", "/repo", "repository root")
	fnPat := fs.String("f", "", "comma-separated function keys (substring match); empty = all contracts")
	timeout := fs.Int("t", 10, "solver timeout seconds")
	out := fs.String("out", "/verif/out/smt", "SMT output dir")
	verbose := fs.Bool("v", false, "verbose")
	nosolve := fs.Bool("nosolve", false, "generate only")
	par := fs.Int("par", 16, "parallel solver processes")
	fs.Parse(args)
	t0 := time.Now()
	g, err := vc.Load(*repo)
	if err != nil {
		fmt.Println("load:", err)
		os.Exit(2)
	}
	if err := g.PreparePures(); err != nil {
		fmt.Println(err)
		os.Exit(2)
	}
	g.ComputeWriteSets()
	fmt.Printf("loaded in %.1fs; %d contracts, %d spec functions\n", time.Since(t0).Seconds(), len(g.CS.Funcs), len(g.Pures))
	var keys []string
	for _, k := range g.CS.Order {
		if g.CS.Funcs[k].Inline || g.CS.Funcs[k].NoVerify {
			continue
		}
		if *fnPat == "" {
			keys = append(keys, k)
			continue
		}
		for _, p := range strings.Split(*fnPat, ",") {
			if strings.Contains(k, p) {
				keys = append(keys, k)
				break
			}
		}
	}
	var results []*vc.FnResult
	for _, k := range keys {
		r := g.GenFunc(k)
		results = append(results, r)
		if r.Err != nil {
			fmt.Printf("%s: ERROR %v\n", k, r.Err)
		}
		if *verbose {
			for _, l := range r.Loops {
				fmt.Println("  ", k, l)
			}
			for _, w := range r.Warnings {
				fmt.Println("  warn:", w)
			}
		}
	}
	header := g.Header()
	if *nosolve {
		for _, r := range results {
			fmt.Printf("%s: %d obligations\n", r.Key, len(r.Obls))
		}
		return
	}
	srs := vc.SolveAll(g, header, results, *out, *par, *timeout, false)
	byFn := map[string][]*vc.SolveResult{}
	for _, s := range srs {
		byFn[s.Fn] = append(byFn[s.Fn], s)
	}
	var fns []string
	for k := range byFn {
		fns = append(fns, k)
	}
	sort.Strings(fns)
	total, ok := 0, 0
	for _, k := range fns {
		n, good := 0, 0
		for _, s := range byFn[k] {
			n++
			if s.Status == "unsat" {
				good++
			}
		}
		total += n
		ok += good
		fmt.Printf("%s: %d/%d discharged\n", k, good, n)
		for _, s := range byFn[k] {
			if s.Status != "unsat" || *verbose {
				fmt.Printf("   %-8s %-60s %s [%s] %s\n", s.Status, s.Obl.Name, s.Obl.Pos, strings.Join(s.Tried, " "), s.Obl.Desc)
			}
		}
	}
	fmt.Printf("TOTAL %d/%d discharged in %.1fs\n", ok, total, time.Since(t0).Seconds())
}

func cmdCheck(args []string) int {
	fs := flag.NewFlagSet("check", flag.ExitOnError)
	repo := fs.String("repo", "/repo", "repository root")
	verif := fs.String("verif", "/verif", "verif root")
	prop := fs.String("p", "", "property id")
	tier := fs.String("tier", "quick", "quick|thorough")
	par := fs.Int("par", 16, "parallel solver processes")
	noev := fs.Bool("noevidence", false, "do not write evidence or replay files (selftest)")
	wb := fs.Bool("write-baseline", false, "record the discharged obligation classes as the baseline of this property")
	fs.Parse(args)
	if t := os.Getenv("VERIF_TIER"); t != "" && *tier == "" {
		*tier = t
	}
	seed := 0
	fmt.Sscanf(os.Getenv("VERIF_SEED"), "%d", &seed)
	return vc.RunCheck(vc.CheckOpts{Repo: *repo, Verif: *verif, Prop: *prop, Tier: *tier, Seed: seed, Par: *par, WriteBaseline: *wb, NoEvidence: *noev})
}
