package main

import (
	"fmt"
	"golang.org/x/tools/go/packages"
	"golang.org/x/tools/go/ssa"
	"golang.org/x/tools/go/ssa/ssautil"
)

func main() {
	cfg := &packages.Config{Mode: packages.LoadAllSyntax, Dir: "/repo", BuildFlags: []string{"-tags=verif"}}
	pkgs, err := packages.Load(cfg, "./pkg/document", "./pkg/style", "./pkg/markdown")
	if err != nil { panic(err) }
	prog, spkgs := ssautil.AllPackages(pkgs, ssa.InstantiateGenerics)
	prog.Build()
	for _, p := range spkgs { fmt.Println(p.Pkg.Path(), len(p.Members)) }
}
