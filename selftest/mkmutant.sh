#!/bin/bash
# usage: mkmutant.sh <name> <property> <expect: violation|pass> <file relative to repo> <python-replace-old> <python-replace-new>
# creates selftest/mutants/<name>/{patch.diff,meta.json} from a single textual replacement in /repo's current tree (agents: V=$W/verif REPO=$W/repo)
set -e
V=${V:-/verif}; REPO=${REPO:-/repo}
name=$1; prop=$2; expect=$3; file=$4; old=$5; new=$6
d=$V/selftest/mutants/$name
mkdir -p $d
tmp=$(mktemp -d)
mkdir -p $tmp/a/$(dirname $file) $tmp/b/$(dirname $file)
cp $REPO/$file $tmp/a/$file
OLD="$old" NEW="$new" python3 - $tmp/a/$file $tmp/b/$file <<'PY'
import sys,os
s=open(sys.argv[1]).read()
old=os.environ['OLD']; new=os.environ['NEW']
if s.count(old)!=1:
    print("replacement text occurs %d times"%s.count(old)); sys.exit(1)
open(sys.argv[2],'w').write(s.replace(old,new))
PY
(cd $tmp && diff -u a/$file b/$file > $d/patch.diff || true)
rm -rf $tmp
printf '{"property":"%s","expect":"%s","file":"%s"}\n' "$prop" "$expect" "$file" > $d/meta.json
echo "created $d ($(wc -l < $d/patch.diff) lines)"
