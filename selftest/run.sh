#!/bin/bash
# Must-fail / must-pass corpus: applies each mutant to a scratch copy of /repo (never to /repo itself),
# runs the property's check against the copy and compares with the expectation.
# usage: run.sh [name-glob]    (default: all)
export GOFLAGS=-mod=mod GOPROXY=off GOSUMDB=off GOTOOLCHAIN=local
V=${V:-/verif}
REPO=${REPO:-/repo}   # agents: V=$W/verif REPO=$W/repo selftest/run.sh 'c11-*'
pat=${1:-*}
ok=0; bad=0
for d in $V/selftest/mutants/$pat/ $V/seeded/$pat/; do
  [ -f $d/patch.diff ] || continue
  name=$(basename $d)
  prop=$(python3 -c "import json;print(json.load(open('$d/meta.json'))['property'])")
  expect=$(python3 -c "import json;print(json.load(open('$d/meta.json')).get('expect','violation'))")
  if [ "$expect" = superseded ]; then echo "SELFTEST $name: superseded (see meta.json)"; ok=$((ok+1)); continue; fi
  scratch=$(mktemp -d ${TMPDIR:-/tmp}/govc-st-$$-XXXXXX)
  rsync -a --exclude .git $REPO/ $scratch/
  if ! (cd $scratch && patch -p1 -s < $d/patch.diff); then echo "SELFTEST $name: patch does not apply"; bad=$((bad+1)); rm -rf $scratch; continue; fi
  out=$(${GOVC_BIN:-$V/bin/govc} check -p $prop -repo $scratch -verif $V -noevidence ${PAR:+-par $PAR} 2>&1); code=$?
  rm -rf $scratch
  if [ "$expect" = violation ]; then
    if [ $code -eq 1 ] && echo "$out" | grep -q "^VIOLATION property=$prop"; then echo "SELFTEST $name: caught ($(echo "$out" | grep -c '^VIOLATION') obligations, first: $(echo "$out" | grep '^VIOLATION' | head -1 | sed 's/.*obligation=//'))"; ok=$((ok+1));
    else echo "SELFTEST $name: MISSED (exit $code)"; echo "$out" | tail -3; bad=$((bad+1)); fi
  elif [ "$expect" = missed ]; then
    if [ $code -eq 0 ]; then echo "SELFTEST $name: documented miss (not caught, see meta.json)"; ok=$((ok+1)); else echo "SELFTEST $name: documented miss is now CAUGHT (exit $code) - update meta.json"; ok=$((ok+1)); fi
  else
    if [ $code -eq 0 ]; then echo "SELFTEST $name: stays green"; ok=$((ok+1)); else echo "SELFTEST $name: FALSE ALARM (exit $code)"; echo "$out" | grep -E "VIOLATION|UNDECIDED" | head -5; bad=$((bad+1)); fi
  fi
done
echo "selftest: $ok as expected, $bad not"
[ $bad -eq 0 ]
